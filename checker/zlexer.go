package main

import (
	"fmt"
	"go/constant"
	"go/token"
	"go/types"
	"sort"
	"strings"

	"golang.org/x/tools/go/ssa"
)

// LEXER: the tokens of the policy language are decided by three finite tables, each of which is visible in
// the source as comparisons of one input octet (or one scanned word) with constants:
//
//   - classes: isAlphaNumeric holds exactly on [0-9A-Za-z_]. Decided by constant propagation of the
//     predicate at the boundary octets of each range and at octets above 0x7f (a call the propagation
//     cannot fold, such as a Unicode class, leaves the verdict open and is reported);
//   - dispatch: scanTokens compares the current octet with exactly '(' ')' ':' ' ' '\r' '\t' '\n'
//     (a lost white-space octet turns a well-formed policy into a refused one);
//   - keywords: the keyword table is consulted by one lookup whose key is the scanned word
//     source[start:curr] itself, after the word has been scanned to its end (a lower-cased key makes the
//     identifiers OR / Not operators; a prefix test splits "notary" into "not ary").
func checkPolicyLexer(c *Ctx, p *Program, rule string) {
	const pkg = "abe/cpabe/tkn20/internal/dsl"
	sp := p.SSAPkg[circlPath+"/"+pkg]
	if sp == nil {
		c.undecided(rule, "policy lexer", "package does not resolve", "")
		return
	}
	// classes
	an := p.Func(pkg, "", "isAlphaNumeric")
	if an == nil || len(an.Params) != 1 {
		c.undecided(rule, "policy lexer: identifier octets", "isAlphaNumeric does not resolve", "")
	} else {
		pn := an.Params[0].Name()
		in := func(b int) bool {
			return (b >= '0' && b <= '9') || (b >= 'A' && b <= 'Z') || (b >= 'a' && b <= 'z') || b == '_'
		}
		for _, b := range []int{0, '0' - 1, '0', '5', '9', '9' + 1, '@', 'A', 'M', 'Z', 'Z' + 1, '_' - 1, '_', '`', 'a', 'm', 'z', 'z' + 1, '-', '.', 0x7f, 0x80, 0xaa, 0xb5, 0xba, 0xc0, 0xd7, 0xe9, 0xf7, 0xff} {
			c.evalAcceptRule(p, rule, fmt.Sprintf("octet %#02x is part of an identifier: %v", b, in(b)), an, map[string]lat{pn: latInt(int64(b))}, nil, in(b))
		}
	}
	// dispatch
	sc := p.Func(pkg, "Lexer", "scanTokens")
	what := "policy lexer: scanTokens dispatches on exactly ( ) : blank CR TAB LF"
	if sc == nil {
		c.undecided(rule, what, "scanTokens does not resolve", "")
	} else {
		got := map[int64]bool{}
		for _, b := range sc.Blocks {
			for _, in := range b.Instrs {
				bo, ok := in.(*ssa.BinOp)
				if !ok || (bo.Op != token.EQL && bo.Op != token.NEQ) {
					continue
				}
				for si, side := range []ssa.Value{bo.X, bo.Y} {
					k, ok := side.(*ssa.Const)
					if !ok || k.Value == nil || k.Value.Kind() != constant.Int {
						continue
					}
					other := []ssa.Value{bo.Y, bo.X}[si]
					if isSourceOctet(other) {
						n, _ := constant.Int64Val(k.Value)
						got[n] = true
					}
				}
			}
		}
		want := []int64{'(', ')', ':', ' ', '\r', '\t', '\n'}
		var miss, extra []string
		for _, w := range want {
			if !got[w] {
				miss = append(miss, fmt.Sprintf("%q", rune(w)))
			}
			delete(got, w)
		}
		for g := range got {
			extra = append(extra, fmt.Sprintf("%q", rune(g)))
		}
		sort.Strings(extra)
		c.count("lexer_dispatch_octets", len(want))
		if len(miss)+len(extra) > 0 {
			c.bad(rule, what, fmt.Sprintf("octets no longer compared: %v; octets newly compared: %v", miss, extra), p.fnPos(sc))
		} else {
			c.ok(rule, what, "the current octet is compared with these seven constants and no other", p.fnPos(sc))
		}
	}
	// keywords
	what = "policy lexer: the keyword table is consulted once, with the scanned word source[start:curr] as key"
	kw := sp.Members["keywords"]
	kg, _ := kw.(*ssa.Global)
	if kg == nil {
		c.undecided(rule, what, "keywords does not resolve", "")
		return
	}
	var uses []string
	var bad []string
	nLookup := 0
	var at *ssa.Function
	for f := range p.AllFuncs {
		if f.Blocks == nil || f.Pkg != sp || f.Name() == "init" {
			continue
		}
		for _, b := range f.Blocks {
			for _, in := range b.Instrs {
				ld, ok := in.(*ssa.UnOp)
				if !ok || ld.Op != token.MUL || ld.X != ssa.Value(kg) {
					continue
				}
				for _, r := range *ld.Referrers() {
					lk, ok := r.(*ssa.Lookup)
					if !ok || lk.X != ssa.Value(ld) {
						bad = append(bad, fmt.Sprintf("%s uses the table other than by a lookup (%s)", fname(f), p.pos(r.Pos())))
						continue
					}
					nLookup++
					at = f
					uses = append(uses, fname(f))
					if why := scannedWordKey(lk.Index); why != "" {
						bad = append(bad, fmt.Sprintf("%s: the key of the lookup %s (%s)", fname(f), why, p.pos(lk.Pos())))
					}
					// the word is scanned to its end first: the lookup is not inside a loop of its function
					if inLoop(lk.Block()) {
						bad = append(bad, fmt.Sprintf("%s: the lookup is made inside the scanning loop (%s)", fname(f), p.pos(lk.Pos())))
					}
				}
			}
		}
	}
	c.count("lexer_keyword_lookups", nLookup)
	if nLookup != 1 {
		bad = append(bad, fmt.Sprintf("%d lookups of the keyword table, one expected", nLookup))
	}
	pos := ""
	if at != nil {
		pos = p.fnPos(at)
	}
	if len(bad) > 0 {
		sort.Strings(bad)
		c.bad(rule, what, strings.Join(bad, "; "), pos)
		return
	}
	c.ok(rule, what, "lookup in "+strings.Join(uses, ","), pos)
}

// isSourceOctet: v is an octet read out of a string (s[i]), possibly through a conversion.
func isSourceOctet(v ssa.Value) bool {
	for {
		switch x := v.(type) {
		case *ssa.Convert:
			v = x.X
			continue
		case *ssa.Lookup:
			b, ok := x.X.Type().Underlying().(*types.Basic)
			return ok && b.Info()&types.IsString != 0
		case *ssa.Index:
			b, ok := x.X.Type().Underlying().(*types.Basic)
			return ok && b.Info()&types.IsString != 0
		}
		return false
	}
}

// scannedWordKey: "" when v is source[start:curr] built from plain loads of the three Lexer fields.
func scannedWordKey(v ssa.Value) string {
	sl, ok := v.(*ssa.Slice)
	if !ok {
		if call, ok := v.(*ssa.Call); ok {
			return "is the result of a call to " + call.Call.Value.Name() + ", not the scanned word itself"
		}
		return "is not a sub-string of the source"
	}
	fieldLoad := func(x ssa.Value, name string) bool {
		ld, ok := x.(*ssa.UnOp)
		if !ok || ld.Op != token.MUL {
			return false
		}
		fa, ok := ld.X.(*ssa.FieldAddr)
		return ok && fieldName(fa) == name
	}
	if !fieldLoad(sl.X, "source") {
		return "does not slice the source field"
	}
	if sl.Low == nil || !fieldLoad(sl.Low, "start") {
		return "does not begin at start"
	}
	if sl.High == nil || !fieldLoad(sl.High, "curr") {
		return "does not end at curr"
	}
	return ""
}

// inLoop: b lies on a cycle of its function's control-flow graph.
func inLoop(b *ssa.BasicBlock) bool {
	seen := map[*ssa.BasicBlock]bool{}
	var st []*ssa.BasicBlock
	st = append(st, b.Succs...)
	for len(st) > 0 {
		x := st[len(st)-1]
		st = st[:len(st)-1]
		if x == b {
			return true
		}
		if seen[x] {
			continue
		}
		seen[x] = true
		st = append(st, x.Succs...)
	}
	return false
}

func init() {
	prev := registry["C20"]
	registry["C20"] = func(c *Ctx) {
		prev(c)
		if p := c.Prog("amd64"); p != nil {
			c.Clauses = append(c.Clauses, "C20.lexer: the policy lexer's three tables (identifier octets [0-9A-Za-z_] by constant propagation at the range boundaries; the seven dispatch octets of scanTokens; one exact-key lookup of the keyword table after the word is scanned)")
			checkPolicyLexer(c, p, "C20.lexer")
		}
	}
}
