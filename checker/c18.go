package main

import (
	"strings"

	"golang.org/x/tools/go/ssa"
)

func init() { registry["C18"] = checkC18 }

func checkC18(c *Ctx) {
	p := c.Prog("amd64")
	if p == nil {
		return
	}
	c.Clauses = append(c.Clauses,
		"C18.finalize: Finalize (blind and partially blind) returns a signature only for a blind signature of exactly the modulus length that passes VerifyBlindSignature, which accepts only on equality",
		"C18.signer: BlindSign refuses a wrong length and an input above the modulus and returns only what DecryptAndCheck re-verified",
		"C18.pss: every rejecting test of EMSA-PSS verification (length relations, 0xBC trailer, zero top bits, zero padding string, 0x01 separator, hash comparison) stands before acceptance; signature length is exact and the signature representative is below the modulus",
		"C18.meta: the partially blind derived public exponent and private key depend on the metadata and the key")
	c.NotDec = append(c.NotDec, "agreement with crypto/rsa.VerifyPSS on all keys (value-level)", "emBits boundary arithmetic", "independence of the signature from the blinding factor")
	c.Trusted = append(c.Trusted, "math/big, crypto/rsa, x/crypto/hkdf")

	br, cm, pb := "blindsign/blindrsa", "blindsign/blindrsa/internal/common", "blindsign/blindrsa/partiallyblindrsa"
	vbs := cm + ".VerifyBlindSignature"
	fin := p.Func(br, "Client", "Finalize")
	pfin := p.Func(pb, "VerifierState", "Finalize")
	c.guard(p, "C18.finalize", "signature released only if the unblinded signature verifies", fin, GuardSpec{Assumes: []Assume{calleeAssume(latNonNil, -1, vbs)}})
	c.guard(p, "C18.finalize", "signature released only if the unblinded signature verifies", pfin, GuardSpec{Assumes: []Assume{calleeAssume(latNonNil, -1, vbs)}})
	// z and z+N unblind to the same signature: a blind signature that is not below the modulus is an altered one
	for _, f := range []*ssa.Function{fin, pfin} {
		c.guard(p, "C18.finalize", "blind signature representative above the modulus refused", f, GuardSpec{Assumes: []Assume{calleeAssume(latInt(1), -1, "(*math/big.Int).Cmp")}})
		c.guard(p, "C18.finalize", "blind signature representative equal to the modulus refused", f, GuardSpec{Assumes: []Assume{calleeAssume(latInt(0), -1, "(*math/big.Int).Cmp")}})
	}
	c.lenReject(p, "C18.finalize", fin, "blindedSig", false)
	c.lenReject(p, "C18.finalize", pfin, "data", false)
	c.guard(p, "C18.finalize", "VerifyBlindSignature accepts only on equality with the encoded message", p.Func(cm, "", "VerifyBlindSignature"),
		GuardSpec{Assumes: []Assume{calleeAssume(latInt(0), -1, "crypto/subtle.ConstantTimeCompare")}})
	// ... the whole of it: a comparison with a tail of the encoded message ignores its leading octets
	c.callArgRule(p, "C18.finalize", "the comparison covers the whole encoded message (as an integer, or the full byte string)", p.Func(cm, "", "VerifyBlindSignature"), "crypto/subtle.ConstantTimeCompare", "",
		map[int]string{0: `call:\(\*math/big\.Int\)\.(Bytes|FillBytes)[^\[]*|param#1`})
	c.depRule(p, "C18.finalize", "comparison covers the encoded message and the signature raised to e", p.Func(cm, "", "VerifyBlindSignature"), sinkCallArg(0, "crypto/subtle.ConstantTimeCompare"), "param:hashed")
	c.depRule(p, "C18.finalize", "comparison covers the encoded message and the signature raised to e", p.Func(cm, "", "VerifyBlindSignature"), sinkCallArg(1, "crypto/subtle.ConstantTimeCompare"), "param:sig", "param:pub")

	// what the client sends, and what Finalize hands out, has the length of the modulus (the signer refuses
	// anything else; the encoded message is one octet shorter when the modulus has 8k+1 bits)
	klen := `make\((\(\(call:\(\*math/big\.Int\)\.BitLen\+7\)/8\)|call:[^ ]*\.Size[^ ]*)\)`
	c.callArgRule(p, "C18.finalize", "the blinded message has the length of the modulus", p.Func(br, "Client", "fixedBlind"), "(*math/big.Int).FillBytes", "", map[int]string{1: klen})
	c.callArgRule(p, "C18.finalize", "the blinded message has the length of the modulus", p.Func(pb, "", "fixedPartiallyBlind"), "(*math/big.Int).FillBytes", "", map[int]string{1: klen})
	// RFC 9474 5: the randomised variants prepare the message with a 32-byte random prefix, the deterministic ones
	// with none - decided per variant constant by constant propagation through NewClient
	if nc := p.Func(br, "", "NewClient"); nc == nil {
		c.undecided("C18.pss", "NewClient: preparation prefix per variant", "anchor does not resolve", "")
	} else {
		for _, t := range []struct {
			v    int64
			want string
			name string
		}{{0, "32", "RSABSSA-SHA384-PSS-Randomized"}, {1, "32", "RSABSSA-SHA384-PSSZero-Randomized"}, {2, "0", "RSABSSA-SHA384-PSS-Deterministic"}, {3, "0", "RSABSSA-SHA384-PSSZero-Deterministic"}} {
			construct := fname(nc) + ": " + t.name + " prepares messages with a " + t.want + "-byte random prefix"
			q := &GuardQuery{P: p, Root: nc, MaxDepth: 0}
			q.Args = make([]lat, len(nc.Params))
			for i := range q.Args {
				q.Args[i] = latTop
			}
			vi := paramIdx(nc, "v")
			if vi < 0 {
				c.undecided("C18.pss", construct, "parameter v does not exist", p.fnPos(nc))
				continue
			}
			q.Args[vi] = latInt(t.v)
			q.NoInline = map[string]bool{"blindsign/blindrsa.NewVerifier": true}
			var got []string
			q.ObserveStore = func(in *ssa.Function, st *ssa.Store, get func(ssa.Value) lat) {
				if in != nc {
					return
				}
				if fa, ok := st.Addr.(*ssa.FieldAddr); ok && fieldName(fa) == "prefixLen" {
					l := get(st.Val)
					if l.k == kConst {
						got = append(got, l.c.ExactString())
					} else {
						got = append(got, "?")
					}
				}
			}
			runGuard(q)
			got = uniq(got)
			switch {
			case len(got) == 0:
				c.bad("C18.pss", construct, "no client is built for this variant", p.fnPos(nc))
			case len(got) == 1 && got[0] == t.want:
				c.ok("C18.pss", construct, "prefixLen = "+got[0], p.fnPos(nc))
			default:
				c.bad("C18.pss", construct, "prefixLen is "+strings.Join(got, " / ")+", RFC 9474 says "+t.want, p.fnPos(nc))
			}
		}
	}
	// RFC 9474 5: the PSS variants use a salt of the hash length (48), the PSSZero variants an empty salt -
	// decided per variant constant by constant propagation through NewVerifier
	if nv := p.Func(br, "", "NewVerifier"); nv == nil {
		c.undecided("C18.pss", "NewVerifier: salt length per variant", "anchor does not resolve", "")
	} else {
		for _, t := range []struct {
			v    int64
			want string
			name string
		}{{0, "48", "RSABSSA-SHA384-PSS-Randomized"}, {1, "0", "RSABSSA-SHA384-PSSZero-Randomized"}, {2, "48", "RSABSSA-SHA384-PSS-Deterministic"}, {3, "0", "RSABSSA-SHA384-PSSZero-Deterministic"}} {
			construct := fname(nv) + ": " + t.name + " verifies (and signs) with a salt of " + t.want + " bytes"
			q := &GuardQuery{P: p, Root: nv, MaxDepth: 1}
			q.Args = make([]lat, len(nv.Params))
			for i := range q.Args {
				q.Args[i] = latTop
			}
			vi := paramIdx(nv, "v")
			if vi < 0 {
				c.undecided("C18.pss", construct, "parameter v does not exist", p.fnPos(nv))
				continue
			}
			q.Args[vi] = latInt(t.v)
			var got []string
			q.ObserveStore = func(in *ssa.Function, st *ssa.Store, get func(ssa.Value) lat) {
				if in != nv {
					return
				}
				if fa, ok := st.Addr.(*ssa.FieldAddr); ok && fieldName(fa) == "SaltLength" {
					l := get(st.Val)
					if l.k == kConst {
						got = append(got, l.c.ExactString())
					} else if cl, ok := st.Val.(*ssa.Call); ok && p.staticCalleeName(&cl.Call) == "(crypto.Hash).Size" && len(cl.Call.Args) == 1 {
						// crypto.Hash.Size of a constant hash identifier: the digest sizes of the standard library
						sizes := map[string]string{"4": "28", "5": "32", "6": "48", "7": "64"}
						if h := get(cl.Call.Args[0]); h.k == kConst && sizes[h.c.ExactString()] != "" {
							got = append(got, sizes[h.c.ExactString()])
						} else {
							got = append(got, "?")
						}
					} else {
						got = append(got, "?")
					}
				}
			}
			runGuard(q)
			got = uniq(got)
			switch {
			case len(got) == 0:
				c.bad("C18.pss", construct, "no verifier is built for this variant", p.fnPos(nv))
			case len(got) == 1 && got[0] == t.want:
				c.ok("C18.pss", construct, "SaltLength = "+got[0], p.fnPos(nv))
			default:
				c.bad("C18.pss", construct, "SaltLength is "+strings.Join(got, " / ")+", RFC 9474 says "+t.want, p.fnPos(nv))
			}
		}
	}
	// crypto/rsa.VerifyPSS with SaltLength 0 (PSSSaltLengthAuto, what the PSSZero verifiers carry) accepts a
	// salt of any length: the delimiter is searched for
	c.reachCountUnder(p, "C18.pss", "with sLen = PSSSaltLengthAuto the 0x01 delimiter is searched for (a salt of any length is accepted, as in crypto/rsa)", p.Func(cm, "", "emsaPSSVerify"), map[string]lat{"sLen": latInt(0)}, nil, "bytes.IndexByte", 1)
	// in auto mode the delimiter may be the first octet of DB (an empty padding string: the longest salt, which
	// is what crypto/rsa.SignPSS produces with PSSSaltLengthAuto)
	c.mayAcceptUnder(p, "C18.pss", "with sLen = PSSSaltLengthAuto a delimiter at position 0 (empty padding string) can verify", p.Func(cm, "", "emsaPSSVerify"),
		map[string]lat{"sLen": latInt(0)}, []Assume{calleeAssume(latInt(0), -1, "bytes.IndexByte")}, nil)
	// the signer hands out a blind signature of exactly the modulus length (Finalize refuses any other); the
	// byte size of a key is ceil(bits / 8)
	for _, pk := range []string{br, pb} {
		c.callCountRule(p, "C18.signer", "the blind signature is written into a buffer of the modulus length (FillBytes, not the minimal Bytes)", p.Func(pk, "Signer", "BlindSign"),
			map[string]int{"(*math/big.Int).FillBytes": 1, "(*math/big.Int).Bytes": 0})
	}
	c.returnRule(p, "C18.signer", "the size of a key in bytes is ceil(bits / 8)", p.Func(br+"/internal/keys", "BigPublicKey", "Size"), 0, `\(\(call:\(\*math/big\.Int\)\.BitLen\+7\)/8\)`)
	modLen := `len\(param#[12]\) != \(\(call:\(\*math/big\.Int\)\.BitLen\+7\)/8\)`
	c.rejectReasonsRule(p, "C18.finalize", reasonSpec{pkg: br, typ: "Client", name: "Finalize", why: "length, range of the blind signature, verification of the unblinded one",
		callees: []string{"(*math/big.Int).Cmp", cm + ".VerifyBlindSignature"}, conds: []string{modLen}})
	c.rejectReasonsRule(p, "C18.finalize", reasonSpec{pkg: pb, typ: "VerifierState", name: "Finalize", why: "length, range of the blind signature, verification of the unblinded one",
		callees: []string{"(*math/big.Int).Cmp", cm + ".VerifyBlindSignature"}, conds: []string{modLen}})
	for _, f := range []struct{ pkg, what string }{{br, "blind RSA"}, {pb, "partially blind RSA"}} {
		c.rejectReasonsRule(p, "C18.signer", reasonSpec{pkg: f.pkg, typ: "Signer", name: "BlindSign", why: "length, range of the blinded message, the re-verified private-key operation",
			callees: []string{"(*math/big.Int).Cmp", cm + ".DecryptAndCheck"}, conds: []string{modLen}})
		bs := p.Func(f.pkg, "Signer", "BlindSign")
		c.lenReject(p, "C18.signer", bs, "data", false)
		c.guard(p, "C18.signer", f.what+": representative above the modulus refused", bs, GuardSpec{Assumes: []Assume{calleeAssume(latInt(1), -1, "(*math/big.Int).Cmp")}})
		c.guard(p, "C18.signer", f.what+": only a re-verified private-key operation is returned", bs, GuardSpec{Assumes: []Assume{calleeAssume(latNonNil, 1, cm+".DecryptAndCheck")}})
	}
	dac := p.Func(cm, "", "DecryptAndCheck")
	c.guard(p, "C18.signer", "DecryptAndCheck fails unless re-encryption gives back the input", dac, GuardSpec{Assumes: []Assume{calleeAssume(latInt(1), -1, "(*math/big.Int).Cmp")}})
	c.guard(p, "C18.signer", "decryption error propagates", dac, GuardSpec{Assumes: []Assume{calleeAssume(latNonNil, 1, cm+".decrypt")}})

	// EMSA-PSS verification
	pv := p.Func(cm, "", "emsaPSSVerify")
	pss := []struct{ name, re string }{
		{"emLen == len(EM)", `.* != len\(param#1\)`},
		{"hLen == len(mHash)", `.*Size.* != len\(param#0\)`},
		{"emLen >= hLen + sLen + 2", `.* < \(.*\+2\)`},
		{"trailer byte 0xBC", `param#1\[.*\] != 188`},
		{"top bits of EM zero", `\(param#1\[0\]&\^.*\) != 0`},
		{"separator 0x01", `param#1\[:.*\]\[.*\] != 1`},
	}
	for _, t := range pss {
		c.guard(p, "C18.pss", "rejects unless "+t.name, pv, GuardSpec{BinAssumes: []BinAssume{binDesc(pv, t.name, t.re, latTrue)}})
	}
	// ... and only for these reasons (RFC 8017 9.1.2 steps 3-14): a further test refuses signatures
	// crypto/rsa.VerifyPSS accepts
	{
		var conds []string
		for _, t := range pss {
			conds = append(conds, t.re)
		}
		conds = append(conds, `param#1\[:.*\]\[:.*\]\[.*\] != 0`)
		c.rejectReasonsRule(p, "C18.pss", reasonSpec{pkg: cm, name: "emsaPSSVerify", why: "RFC 8017 9.1.2", callees: []string{"bytes.Equal", "bytes.IndexByte", "invoke (hash.Hash).Size"}, conds: conds})
	}
	// zero padding string: tested in a loop, through-site
	if pv != nil {
		ps := binDesc(pv, "PS octet == 0", `param#1\[:.*\]\[:.*\]\[.*\] != 0`, latTrue)
		c.guard(p, "C18.pss", "rejects unless every padding octet is zero", pv, GuardSpec{BinAssumes: []BinAssume{ps}, Args: map[string]lat{"em": latNonEmpty}, Depth: 1, ThroughBin: true})
	}
	c.guard(p, "C18.pss", "rejects unless H' == H", pv, GuardSpec{Assumes: []Assume{calleeAssume(latFalse, -1, "bytes.Equal")}})
	vp := p.Func(cm, "", "verifyPSS")
	c.lenReject(p, "C18.pss", vp, "sig", false)
	// crypto/rsa refuses a signature representative that is not below the modulus (s and s+N would
	// otherwise both verify)
	c.guard(p, "C18.pss", "signature representative not below the modulus refused", vp, GuardSpec{Assumes: []Assume{calleeAssume(latInt(1), -1, "(*math/big.Int).Cmp")}})
	c.guard(p, "C18.pss", "signature representative equal to the modulus refused", vp, GuardSpec{Assumes: []Assume{calleeAssume(latInt(0), -1, "(*math/big.Int).Cmp")}})
	// salt lengths: the client draws SaltLength bytes (0 for the PSSZERO variants) and the partially blind
	// verifier insists on a salt as long as the hash (not "auto": any salt length would verify)
	c.callArgRule(p, "C18.pss", "the salt drawn by Blind has the variant's salt length", p.Func(br, "Client", "Blind"), "io.ReadFull", "", map[int]string{1: `make\(param#0\.v\.PSSOptions\.SaltLength\)`})
	c.callArgRule(p, "C18.pss", "the partially blind verifier requires a salt of the hash length", p.Func(br+"/partiallyblindrsa", "randomizedVerifier", "Verify"), cm+".VerifyMessageSignature", "", map[int]string{2: `call:invoke \(hash\.Hash\)\.Size\(recv=param#0\.hash\)`})
	// the range check is made on the signature representative, i.e. before the public-key operation (the
	// result of s^e mod N is below N whatever s was)
	c.orderRule(p, "C18.pss", "the comparison with the modulus precedes the public-key operation", vp,
		"call of (*big.Int).Cmp", p.isCallTo(-1, nil, "(*math/big.Int).Cmp"), "call of encrypt", p.isCallTo(-1, nil, cm+".encrypt"))
	// the message is hashed from a cleared state (the partially blind verifier hands out its long-lived hash)
	c.orderRule(p, "C18.pss", "the hash is reset before the message is absorbed", p.Func(cm, "", "EncodeMessageEMSAPSS"),
		"call of hash.Hash.Reset", p.isCallTo(-1, nil, "invoke (hash.Hash).Reset"), "call of hash.Hash.Write", p.isCallTo(-1, nil, "invoke (hash.Hash).Write", "invoke (io.Writer).Write"))
	// s^e mod N has to fit into emLen octets: when the modulus has 8k+1 bits the encoded message is one octet
	// shorter than the modulus and a representative with a non-zero leading octet is no PSS encoding at all
	// (crypto/rsa refuses it; dropping the octet instead accepts a second signature string)
	c.guard(p, "C18.pss", "a message representative longer than emLen octets is refused", vp,
		GuardSpec{BinAssumes: []BinAssume{binDesc(vp, "m.BitLen() > 8*emLen", `call:\(\*math/big\.Int\)\.BitLen > .*`, latTrue)}})
	c.guard(p, "C18.pss", "verifyPSS accepts only through EMSA-PSS verification", vp, GuardSpec{Assumes: []Assume{calleeAssume(latNonNil, -1, cm+".emsaPSSVerify")}})
	c.guard(p, "C18.pss", "VerifyMessageSignature accepts only through verifyPSS", p.Func(cm, "", "VerifyMessageSignature"), GuardSpec{Assumes: []Assume{calleeAssume(latNonNil, -1, cm+".verifyPSS")}})
	c.guard(p, "C18.pss", "public Verify delegates", p.Func(br, "Verifier", "Verify"), GuardSpec{Assumes: []Assume{calleeAssume(latNonNil, -1, cm+".VerifyMessageSignature")}})
	c.callArgRule(p, "C18.pss", "verification uses the variant's salt length and hash and the caller's message/signature", p.Func(br, "Verifier", "Verify"), cm+".VerifyMessageSignature", "",
		map[int]string{0: `param#1`, 1: `param#2`, 2: `param#0\.PSSOptions\.SaltLength`, 4: `param#0\.PSSOptions\.Hash`})

	// metadata binding
	dpk := p.Func(pb, "", "derivePublicKey")
	c.depRule(p, "C18.meta", "derived public exponent depends on metadata and modulus", dpk, sinkResult(), "param:metadata", "param:pk")
	c.depRule(p, "C18.meta", "HKDF input binds the metadata", dpk, sinkCallArg(1, "golang.org/x/crypto/hkdf.New"), "param:metadata")
	c.depRule(p, "C18.meta", "derived private key depends on metadata and key", p.Func(pb, "", "deriveKeyPair"), sinkResult(), "param:metadata", "param:sk")
	c.callArgRule(p, "C18.meta", "signer derives the key pair from its key and the request metadata", p.Func(pb, "Signer", "BlindSign"), pb+".deriveKeyPair", "", map[int]string{1: `param#0\.sk`, 2: `param#2`})
	c.depRule(p, "C18.meta", "signing uses the metadata-derived key", p.Func(pb, "Signer", "BlindSign"), sinkCallArg(1, cm+".DecryptAndCheck"), "param:metadata")
}
