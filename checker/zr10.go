package main

import (
	"fmt"
	"go/constant"
	"go/token"
	"go/types"
	"regexp"
	"sort"
	"strings"

	"golang.org/x/tools/go/ssa"
)

// Round 10 rules.

// distinctKeyRule: the set of seen abscissae in areAllDifferent is keyed by the whole encoding of the
// scalar: every key of the map is string(b) where b is the first result of a MarshalBinary call. A key cut
// to a fixed width makes the distinct 48- and 66-octet scalars of P-384 and P-521 collide (every qualified
// share set is then refused); a key that is not the encoding at all lets repeated abscissae through.
func (c *Ctx) distinctKeyRule(p *Program, rule string) {
	f := p.Func("math/polynomial", "", "areAllDifferent")
	what := "the set of seen abscissae is keyed by the whole MarshalBinary encoding"
	if f == nil {
		c.undecided(rule, what, "areAllDifferent does not resolve", "")
		return
	}
	var keys []ssa.Value
	var pos []token.Pos
	for _, b := range f.Blocks {
		for _, in := range b.Instrs {
			switch x := in.(type) {
			case *ssa.MapUpdate:
				keys = append(keys, x.Key)
				pos = append(pos, x.Pos())
			case *ssa.Lookup:
				if _, ok := x.X.Type().Underlying().(*types.Map); ok {
					keys = append(keys, x.Index)
					pos = append(pos, x.Pos())
				}
			}
		}
	}
	if len(keys) == 0 {
		c.undecided(rule, fname(f)+": "+what, "no map access found", p.fnPos(f))
		return
	}
	var bad []string
	for i, k := range keys {
		if why := wholeEncoding(k); why != "" {
			bad = append(bad, fmt.Sprintf("%s: %s", p.pos(pos[i]), why))
		}
	}
	c.count("distinct_key_sites", len(keys))
	if len(bad) > 0 {
		sort.Strings(bad)
		c.bad(rule, fname(f)+": "+what, strings.Join(bad, "; "), p.fnPos(f))
		return
	}
	c.ok(rule, fname(f)+": "+what, fmt.Sprintf("%d map accesses, each keyed by string(MarshalBinary())", len(keys)), p.fnPos(f))
}

// wholeEncoding: "" when v is string(b) with b the first result of a MarshalBinary call (the octets may pass
// through a MakeInterface-free chain of conversions only).
func wholeEncoding(v ssa.Value) string {
	cv, ok := v.(*ssa.Convert)
	if !ok {
		return "the key is not a conversion of the encoding (" + v.Type().String() + ")"
	}
	b, ok := cv.Type().Underlying().(*types.Basic)
	if !ok || b.Info()&types.IsString == 0 {
		return "the key is not a string of the encoding"
	}
	ex, ok := cv.X.(*ssa.Extract)
	if !ok || ex.Index != 0 {
		if _, isSl := cv.X.(*ssa.Slice); isSl {
			return "the key is a part of the encoding only"
		}
		return "the key is not the result of MarshalBinary"
	}
	call, ok := ex.Tuple.(*ssa.Call)
	if !ok {
		return "the key is not the result of MarshalBinary"
	}
	name := ""
	if call.Call.IsInvoke() {
		name = call.Call.Method.Name()
	} else if sc := call.Call.StaticCallee(); sc != nil {
		name = sc.Name()
	}
	if name != "MarshalBinary" {
		return "the key is the result of " + name + ", not of MarshalBinary"
	}
	return ""
}

// lenOfFieldIs binds len(<load of field name>) in any function of the package to n.
func lenOfFieldIs(name string, n int64, pkgSuffix string) ValAssume {
	return ValAssume{Name: "len(." + name + ")", Val: latInt(n), Match: func(v ssa.Value, in *ssa.Function) bool {
		if in.Pkg == nil || !strings.HasSuffix(in.Pkg.Pkg.Path(), pkgSuffix) {
			return false
		}
		call, ok := v.(*ssa.Call)
		if !ok {
			return false
		}
		bi, ok := call.Call.Value.(*ssa.Builtin)
		if !ok || bi.Name() != "len" || len(call.Call.Args) != 1 {
			return false
		}
		return loadsField(call.Call.Args[0], name)
	}}
}

// loadsField: v is a load of (or a field read of) the named struct field.
func loadsField(v ssa.Value, name string) bool {
	switch x := v.(type) {
	case *ssa.UnOp:
		if x.Op != token.MUL {
			return false
		}
		fa, ok := x.X.(*ssa.FieldAddr)
		return ok && fieldName(fa) == name
	case *ssa.Field:
		st, ok := x.X.Type().Underlying().(*types.Struct)
		return ok && x.Field < st.NumFields() && st.Field(x.Field).Name() == name
	}
	return false
}

func init() {
	prev := registry["C17"]
	registry["C17"] = func(c *Ctx) {
		prev(c)
		if p := c.Prog("amd64"); p != nil {
			c.Clauses = append(c.Clauses,
				"C17.distinctkey: the distinct-abscissae test keys its set by the whole scalar encoding",
				"C17.evalconst: a polynomial of one coefficient (threshold 0) is evaluated to that coefficient (constant propagation with len(c)=1 reaches the Set of the coefficient), and one of two coefficients enters the Horner loop")
			c.distinctKeyRule(p, "C17.distinctkey")
			ev := p.Func("math/polynomial", "Polynomial", "Evaluate")
			c.reachRule(p, "C17.evalconst", "a constant polynomial (one coefficient) evaluates to its coefficient", ev, nil, nil,
				[]ValAssume{lenOfFieldIs("c", 1, "math/polynomial")}, "invoke (group.Scalar).Set", true)
			c.reachRule(p, "C17.evalconst", "a constant polynomial (one coefficient) does not enter the Horner loop", ev, nil, nil,
				[]ValAssume{lenOfFieldIs("c", 1, "math/polynomial")}, "invoke (group.Scalar).Mul", false)
			c.reachRule(p, "C17.evalconst", "a polynomial of two coefficients enters the Horner loop", ev, nil, nil,
				[]ValAssume{lenOfFieldIs("c", 2, "math/polynomial")}, "invoke (group.Scalar).Mul", true)
			c.reachRule(p, "C17.evalconst", "the empty polynomial evaluates to zero (no coefficient is read)", ev, nil, nil,
				[]ValAssume{lenOfFieldIs("c", 0, "math/polynomial")}, "invoke (group.Scalar).Set", false)
		}
	}
}

// simotTranscriptRule: the three key derivations of the simplest-OT protocol (sender k0 and k1, receiver kR)
// hash transcripts of one shape: A ‖ B ‖ P with A and B the two protocol messages (fields A and B of the
// party) and P one freshly computed group element, each in its whole MarshalBinary encoding, and nothing
// else. A party that encodes a further input differently from its peer derives a key the peer does not
// hold; a transcript cut to a fixed width stops depending on P in the larger groups.
func (c *Ctx) simotTranscriptRule(p *Program, rule string) {
	type site struct {
		fn   *ssa.Function
		desc string
		pos  string
	}
	var sites []site
	anchors := map[*ssa.Function]bool{}
	for _, fm := range [][2]string{{"Sender", "Round2Sender"}, {"Receiver", "Round3Receiver"}} {
		f := p.Func("ot/simot", fm[0], fm[1])
		if f == nil {
			c.undecided(rule, "simplest OT: "+fm[1]+" key derivation transcript", "function does not resolve", "")
			return
		}
		anchors[f] = true
	}
	sp := p.SSAPkg[circlPath+"/ot/simot"]
	var fns []*ssa.Function
	for f := range p.AllFuncs {
		if f.Blocks != nil && f.Pkg == sp {
			fns = append(fns, f)
		}
	}
	sort.Slice(fns, func(i, j int) bool { return fns[i].String() < fns[j].String() })
	inAnchors := 0
	for _, f := range fns {
		for _, b := range f.Blocks {
			for _, in := range b.Instrs {
				call, ok := in.(*ssa.Call)
				if !ok {
					continue
				}
				name := ""
				if call.Call.IsInvoke() {
					name = call.Call.Method.Name()
				} else if sc := call.Call.StaticCallee(); sc != nil {
					name = sc.Name()
				}
				if name != "Write" || len(call.Call.Args) == 0 {
					continue
				}
				arg := call.Call.Args[len(call.Call.Args)-1]
				sites = append(sites, site{f, descVal(arg), p.pos(call.Pos())})
				if anchors[f] {
					inAnchors++
				}
			}
		}
	}
	what := "simplest OT: the three key derivations hash A ‖ B ‖ P in whole encodings"
	c.count("simot_transcripts", len(sites))
	if len(sites) == 0 || (inAnchors != 0 && inAnchors != 3) {
		c.bad(rule, what, fmt.Sprintf("%d hash inputs found in the package, %d of them in Round2Sender and Round3Receiver (three expected there, or all of them in a shared helper)", len(sites), inAnchors), "")
		return
	}
	mb := `call:invoke \([^)]*\)\.MarshalBinary\(recv=`
	want := regexp.MustCompile(`^concat\(` + mb + `param#0\.A\)#0 ‖ ` + mb + `param#0\.B\)#0 ‖ ` + mb + `call:invoke \(group\.Group\)\.NewElement\([^‖]*\)\)#0\)$`)
	// a shared helper sees the three elements as its own operands: three whole encodings and nothing else
	helper := regexp.MustCompile(`^concat\(` + mb + `[^‖]*\)#0 ‖ ` + mb + `[^‖]*\)#0 ‖ ` + mb + `[^‖]*\)#0\)$`)
	var bad []string
	for _, s := range sites {
		if !anchors[s.fn] {
			if !helper.MatchString(s.desc) {
				bad = append(bad, fmt.Sprintf("%s (%s): hash input is %s", s.pos, fname(s.fn), s.desc))
			}
			continue
		}
		if !want.MatchString(s.desc) {
			bad = append(bad, fmt.Sprintf("%s (%s): hash input is %s", s.pos, fname(s.fn), s.desc))
		}
	}
	if len(bad) > 0 {
		c.bad(rule, what, strings.Join(bad, "; "), p.fnPos(sites[0].fn))
		return
	}
	c.ok(rule, what, "three hash inputs of the shape A.MarshalBinary ‖ B.MarshalBinary ‖ P.MarshalBinary", p.fnPos(sites[0].fn))
}

func init() {
	prev := registry["C16"]
	registry["C16"] = func(c *Ctx) {
		prev(c)
		if p := c.Prog("amd64"); p != nil {
			c.Clauses = append(c.Clauses, "C16.ottranscript: sender and receiver of the simplest OT hash transcripts of one shape (A ‖ B ‖ P, whole encodings, nothing else)")
			c.simotTranscriptRule(p, "C16.ottranscript")
		}
	}
}

// hintAllRule: VecK.MakeHint computes the hint of every one of the K polynomials. The signing loop discards
// an attempt only when the count of ones exceeds ω, so the loop over the polynomials may be left early only
// on a test that the count already exceeds ω (count > ω, or count >= ω+1); leaving at count == ω hands the
// caller a hint vector whose remaining polynomials are stale, and the caller keeps the attempt.
func (c *Ctx) hintAllRule(p *Program, rule string) {
	n := 0
	for _, pk := range []string{"sign/dilithium/mode2", "sign/dilithium/mode3", "sign/dilithium/mode5", "sign/mldsa/mldsa44", "sign/mldsa/mldsa65", "sign/mldsa/mldsa87"} {
		ip := pk + "/internal"
		f := p.Func(ip, "VecK", "MakeHint")
		what := "the hint of every polynomial is computed unless the count already exceeds ω"
		if f == nil {
			c.undecided(rule, ip+": "+what, "VecK.MakeHint does not resolve", "")
			continue
		}
		omega, ok := p.constInt(ip, "Omega")
		if !ok {
			c.undecided(rule, fname(f)+": "+what, "Omega does not resolve", p.fnPos(f))
			continue
		}
		var bad []string
		loops := 0
		for _, h := range f.Blocks {
			body := loopBody(h)
			if body == nil {
				continue
			}
			loops++
			for b := range body {
				if b == h {
					continue
				}
				for _, s := range b.Succs {
					if body[s] {
						continue
					}
					// an exit from inside the body
					okExit := false
					if iff, isIf := b.Instrs[len(b.Instrs)-1].(*ssa.If); isIf {
						if bo, isBo := iff.Cond.(*ssa.BinOp); isBo {
							taken := b.Succs[0] == s // exit on the true edge
							okExit = exceedsConst(bo, omega, taken)
						}
					}
					if !okExit {
						bad = append(bad, fmt.Sprintf("the loop is left from inside its body at %s on a test that does not imply count > %d", p.pos(firstPos(b)), omega))
					}
				}
			}
		}
		n++
		if loops == 0 {
			c.undecided(rule, fname(f)+": "+what, "no loop found", p.fnPos(f))
			continue
		}
		if len(bad) > 0 {
			sort.Strings(bad)
			c.bad(rule, fname(f)+": "+what, strings.Join(bad, "; "), p.fnPos(f))
			continue
		}
		c.ok(rule, fname(f)+": "+what, fmt.Sprintf("%d loop(s), left only at the header or on count > %d", loops, omega), p.fnPos(f))
	}
	c.count("hint_loops", n)
}

// exceedsConst: the comparison, on the given edge, implies (non-constant operand) > k.
func exceedsConst(bo *ssa.BinOp, k int64, onTrue bool) bool {
	kv := func(v ssa.Value) (int64, bool) {
		cst, ok := v.(*ssa.Const)
		if !ok || cst.Value == nil || cst.Value.Kind() != constant.Int {
			return 0, false
		}
		return cst.Int64(), true
	}
	op := bo.Op
	var n int64
	if y, ok := kv(bo.Y); ok {
		n = y
	} else if x, ok := kv(bo.X); ok {
		// k OP v  ==  v OP' k
		n = x
		switch op {
		case token.LSS:
			op = token.GTR
		case token.LEQ:
			op = token.GEQ
		case token.GTR:
			op = token.LSS
		case token.GEQ:
			op = token.LEQ
		}
	} else {
		return false
	}
	if !onTrue {
		switch op {
		case token.LSS:
			op = token.GEQ
		case token.LEQ:
			op = token.GTR
		case token.GTR:
			op = token.LEQ
		case token.GEQ:
			op = token.LSS
		default:
			return false
		}
	}
	switch op {
	case token.GTR:
		return n >= k
	case token.GEQ:
		return n >= k+1
	}
	return false
}

func init() {
	prev := registry["C04"]
	registry["C04"] = func(c *Ctx) {
		prev(c)
		if p := c.Prog("amd64"); p != nil {
			c.Clauses = append(c.Clauses, "C04.hintall: MakeHint leaves its loop over the polynomials early only when the count of ones already exceeds ω")
			c.hintAllRule(p, "C04.hintall")
		}
	}
}

// notSnapshotRule: Parser.not flips the polarity of exactly the leaves that were declared below the negation.
// It recognises them by a snapshot of the wires that existed before; the snapshot has to tell wires apart
// by their whole identity, i.e. be keyed by the key type of the parser's own wire table. A snapshot keyed by
// the text of a leaf (label, or label and value) takes a repeated leaf under a negation for an old one and
// leaves it unflipped: the parsed policy is not the written one.
func (c *Ctx) notSnapshotRule(p *Program, rule string) {
	f := p.Func("abe/cpabe/tkn20/internal/dsl", "Parser", "not")
	what := "the snapshot of wires declared before a negation is keyed by the wire identity"
	if f == nil {
		c.undecided(rule, what, "Parser.not does not resolve", "")
		return
	}
	var wiresKey types.Type
	for _, b := range f.Blocks {
		for _, in := range b.Instrs {
			if fa, ok := in.(*ssa.FieldAddr); ok && fieldName(fa) == "wires" {
				if pt, ok := fa.Type().Underlying().(*types.Pointer); ok {
					if m, ok := pt.Elem().Underlying().(*types.Map); ok {
						wiresKey = m.Key()
					}
				}
			}
		}
	}
	if wiresKey == nil {
		c.undecided(rule, fname(f)+": "+what, "the wire table is not used", p.fnPos(f))
		return
	}
	n := 0
	var bad []string
	for _, b := range f.Blocks {
		for _, in := range b.Instrs {
			mm, ok := in.(*ssa.MakeMap)
			if !ok {
				continue
			}
			n++
			k := mm.Type().Underlying().(*types.Map).Key()
			if !types.Identical(k, wiresKey) {
				bad = append(bad, fmt.Sprintf("%s: snapshot keyed by %s, the wire table by %s", p.pos(mm.Pos()), types.TypeString(k, nil), types.TypeString(wiresKey, nil)))
			}
		}
	}
	c.count("not_snapshot_maps", n)
	switch {
	case n == 0:
		c.undecided(rule, fname(f)+": "+what, "no snapshot map found", p.fnPos(f))
	case len(bad) > 0:
		c.bad(rule, fname(f)+": "+what, strings.Join(bad, "; "), p.fnPos(f))
	default:
		c.ok(rule, fname(f)+": "+what, fmt.Sprintf("%d snapshot map(s) keyed by %s", n, types.TypeString(wiresKey, nil)), p.fnPos(f))
	}
}

func init() {
	prev := registry["C20"]
	registry["C20"] = func(c *Ctx) {
		prev(c)
		if p := c.Prog("amd64"); p != nil {
			c.Clauses = append(c.Clauses, "C20.notsnapshot: the negation level of the policy parser tells old and new leaves apart by wire identity")
			c.notSnapshotRule(p, "C20.notsnapshot")
		}
	}
}
