package ff

import "testing"

// Fp4.Inv must compute 1/x whatever the receiver held before, also when the
// receiver is the operand.
func TestFindingFp4InvStale(t *testing.T) {
	var x Fp4
	x[0][0].SetUint64(3)
	x[0][1].SetUint64(5)
	x[1][0].SetUint64(7)
	x[1][1].SetUint64(11)
	var one Fp4
	one.SetOne()

	var fresh, prod Fp4
	fresh.Inv(&x)
	prod.Mul(&fresh, &x)
	if prod.IsEqual(&one) != 1 {
		t.Errorf("zero receiver: x * Inv(x) != 1")
	}
	dirty := x
	dirty[1][0].SetUint64(99)
	dirty.Inv(&x)
	prod.Mul(&dirty, &x)
	if prod.IsEqual(&one) != 1 {
		t.Errorf("used receiver: x * Inv(x) != 1")
	}
	alias := x
	alias.Inv(&alias)
	prod.Mul(&alias, &x)
	if prod.IsEqual(&one) != 1 {
		t.Errorf("aliased receiver: x * Inv(x) != 1")
	}
}
