package hpke_test

// Demonstrates (C07): the RFC 9180 §5.1 PSK-input rules are not enforced: PSK mode without a PSK
// is accepted, and base mode with a (left-over) PSK is accepted, because verifyPSKInputs switches on
// `modeBase | modeAuth` (= 2) and `modePSK | modeAuthPSK` (= 3) instead of listing the cases.
// Place in /repo/hpke: go test -run TestFindingPSKInputs ./hpke/

import (
	"crypto/rand"
	"testing"

	"github.com/cloudflare/circl/hpke"
)

func TestFindingPSKInputs(t *testing.T) {
	suite := hpke.NewSuite(hpke.KEM_X25519_HKDF_SHA256, hpke.KDF_HKDF_SHA256, hpke.AEAD_AES128GCM)
	pk, _, err := hpke.KEM_X25519_HKDF_SHA256.Scheme().GenerateKeyPair()
	if err != nil {
		t.Fatal(err)
	}
	s, _ := suite.NewSender(pk, []byte("info"))
	if _, _, err := s.SetupPSK(rand.Reader, nil, nil); err == nil {
		t.Errorf("PSK mode without PSK and PSK id accepted")
	}
	s2, _ := suite.NewSender(pk, []byte("info"))
	if _, _, err := s2.SetupPSK(rand.Reader, []byte("0123456789abcdef0123456789abcdef"), []byte("id")); err != nil {
		t.Fatal(err)
	}
	if _, _, err := s2.Setup(rand.Reader); err == nil {
		t.Errorf("base mode with a PSK present accepted")
	}
}
