package main

import (
	"fmt"
	"go/token"
	"go/types"
	"sort"
	"strings"

	"golang.org/x/tools/go/ssa"
)

// Rules written from the misses of round 9. Each is a necessary condition of the property it is registered
// under, phrased without naming the seeded construct.

func wrapProp(prop string, fn func(c *Ctx, p *Program)) {
	prev := registry[prop]
	registry[prop] = func(c *Ctx) {
		prev(c)
		if p := c.Prog("amd64"); p != nil {
			fn(c, p)
		}
	}
}

// checkAllCoefficients: the equality test of a tower type (an array of coefficients) looks at every
// coefficient of its operand.
func checkAllCoefficients(c *Ctx, p *Program, rule string) {
	sp := p.SSAPkg[circlPath+"/ecc/bls12381/ff"]
	if sp == nil {
		c.undecided(rule, "ff: IsEqual of the tower types", "package does not resolve", "")
		return
	}
	n := 0
	var names []string
	for name := range sp.Members {
		names = append(names, name)
	}
	sort.Strings(names)
	for _, name := range names {
		tn, ok := sp.Members[name].(*ssa.Type)
		if !ok {
			continue
		}
		arr, ok := tn.Type().Underlying().(*types.Array)
		if !ok || arr.Len() > 8 {
			continue
		}
		f := p.Func("ecc/bls12381/ff", name, "IsEqual")
		if f == nil || f.Blocks == nil || len(f.Params) < 2 {
			continue
		}
		n++
		x := f.Params[1]
		seen := map[string]bool{}
		for _, b := range f.Blocks {
			for _, in := range b.Instrs {
				if ia, ok := in.(*ssa.IndexAddr); ok && ia.X == ssa.Value(x) {
					if k, ok := ia.Index.(*ssa.Const); ok && k.Value != nil {
						seen[k.Value.ExactString()] = true
					} else {
						seen["*"] = true
					}
				}
				// the operand handed on whole (a type that wraps another one delegates the comparison)
				if ci, ok := in.(ssa.CallInstruction); ok {
					for _, a := range ci.Common().Args {
						whole := a
						for {
							if ct, ok := whole.(*ssa.ChangeType); ok {
								whole = ct.X
								continue
							}
							if cv, ok := whole.(*ssa.Convert); ok {
								whole = cv.X
								continue
							}
							break
						}
						if whole == ssa.Value(x) {
							seen["*"] = true
						}
					}
				}
			}
		}
		what := fmt.Sprintf("(ff.%s).IsEqual compares all %d coefficients", name, arr.Len())
		if seen["*"] || int64(len(seen)) == arr.Len() {
			c.ok(rule, what, fmt.Sprintf("%d coefficients of the operand are read", len(seen)), p.fnPos(f))
		} else {
			c.bad(rule, what, fmt.Sprintf("only %d of the %d coefficients of the operand are read: elements that differ in the others compare equal (and a value with garbage there tests as zero / one)", len(seen), arr.Len()), p.fnPos(f))
		}
	}
	if n < 3 {
		c.undecided(rule, "ff: IsEqual of the tower types", fmt.Sprintf("only %d found (floor 3)", n), "")
	}
}

// checkCalleesOf: f calls every callee of must and none of mustNot (static callees, by full name).
func checkCalleesOf(c *Ctx, p *Program, rule, what string, f *ssa.Function, must, mustNot []string, why string) {
	if f == nil {
		c.undecided(rule, what, "anchor does not resolve", "")
		return
	}
	// the callees of f, looking through wrappers of f's own package (two levels)
	got, direct := map[string]bool{}, map[string]bool{}
	var collect func(g *ssa.Function, depth int)
	collect = func(g *ssa.Function, depth int) {
		for _, b := range g.Blocks {
			for _, in := range b.Instrs {
				if ci, ok := in.(ssa.CallInstruction); ok {
					got[normName(p.staticCalleeName(ci.Common()))] = true
					if depth == 0 {
						direct[normName(p.staticCalleeName(ci.Common()))] = true
					}
					if cal := ci.Common().StaticCallee(); cal != nil && cal.Blocks != nil && cal.Pkg == f.Pkg && depth < 2 {
						collect(cal, depth+1)
					}
				}
			}
		}
	}
	collect(f, 0)
	var bad []string
	for _, m := range must {
		if !got[normName(m)] {
			bad = append(bad, "does not call "+m)
		}
	}
	// a forbidden sibling counts when f calls it itself, or reaches it without passing a required callee
	for _, m := range mustNot {
		viaMust := false
		for _, mm := range must {
			if direct[normName(mm)] {
				viaMust = true
			}
		}
		if direct[normName(m)] || got[normName(m)] && !viaMust {
			bad = append(bad, "calls "+m)
		}
	}
	if len(bad) > 0 {
		c.bad(rule, fname(f)+": "+what, strings.Join(bad, "; ")+": "+why, p.fnPos(f))
		return
	}
	c.ok(rule, fname(f)+": "+what, "calls "+strings.Join(must, ", "), p.fnPos(f))
}

func init() {
	wrapProp("C13", func(c *Ctx, p *Program) {
		checkMustWrite(c, p, "C13.destwrite", "sign/ed25519", "pointR1", "toAffine", []string{".x", ".y", ".z", ".ta", ".tb"}, "normalisation rewrites all five coordinates together (ta*tb = x*y/z is the invariant every later addition relies on)")
	})
	wrapProp("C05", func(c *Ctx, p *Program) {
		c.Clauses = append(c.Clauses, "C05.ctx255: a context of exactly 255 octets, the longest RFC 8032 admits, can be verified under")
		for _, n := range []string{"VerifyPh", "VerifyWithCtx"} {
			c.mayAccept(p, "C05.ctx255", "a signature under a context of 255 octets can verify", p.Func("sign/ed25519", "", n), map[string]lat{"ctx": latSliceLen(255)})
		}
		c.mayAccept(p, "C05.ctx255", "a signature under a context of 255 octets can verify", p.Func("sign/ed448", "", "verify"), map[string]lat{"ctx": latSliceLen(255)})
	})
	wrapProp("C12", func(c *Ctx, p *Program) {
		c.Clauses = append(c.Clauses, "C12.allcoeffs: the equality tests of the BLS12-381 tower types read every coefficient of their operand", "C12.getuint: fp128.Fp.GetUint64 refuses an element whose high word is not zero")
		checkAllCoefficients(c, p, "C12.allcoeffs")
		f := p.Func("vdaf/prio3/arith/fp128", "Fp", "GetUint64")
		c.guard(p, "C12.getuint", "an element of 2^64 or more is refused, not truncated", f,
			GuardSpec{BinAssumes: []BinAssume{binDesc(f, "high word != 0", `[^ ]*\[1\] != 0`, latTrue)}})
	})
	wrapProp("C19", func(c *Ctx, p *Program) {
		f := p.Func("vdaf/prio3/arith/fp128", "Fp", "GetUint64")
		c.guard(p, "C19.getuint", "an aggregate of 2^64 or more is refused, not truncated", f,
			GuardSpec{BinAssumes: []BinAssume{binDesc(f, "high word != 0", `[^ ]*\[1\] != 0`, latTrue)}})
	})
	wrapProp("C03", func(c *Ctx, p *Program) {
		c.Clauses = append(c.Clauses, "C03.pkegen: the round-3 Kyber.CPAPKE packages generate keys with the round-3 key derivation (G(d)), not the FIPS 203 one (G(d‖k))")
		for _, n := range []string{"512", "768", "1024"} {
			pkg := "pke/kyber/kyber" + n
			checkCalleesOf(c, p, "C03.pkegen", "GenerateKey derives the key pair with the round-3 seed expansion", p.Func(pkg, "", "GenerateKey"),
				[]string{pkg + "/internal.NewKeyFromSeed"}, []string{pkg + ".NewKeyFromSeedMLKEM", pkg + "/internal.NewKeyFromSeedMLKEM"}, "the key pair is then the ML-KEM one for every seed")
		}
	})
	wrapProp("C09", func(c *Ctx, p *Program) {
		c.Clauses = append(c.Clauses, "C09.fourqsign: the FourQ encoder takes the sign bit from the sign function of GF(p^2) that the decoder compares with (not from one coordinate of x)")
		checkCalleesOf(c, p, "C09.fourqsign", "the sign bit of the encoding is the sign of x in GF(p^2)", p.Func("ecc/fourq", "Point", "Marshal"),
			[]string{"ecc/fourq.fqSgn"}, []string{"ecc/fourq.fpSgn"}, "points whose x has a zero real part encode with the wrong bit and decode to their negative")
	})
	wrapProp("C07", func(c *Ctx, p *Program) {
		c.Clauses = append(c.Clauses, "C07.kdfhash: every HPKE KDF identifier selects the hash function of its name (RFC 9180 table 3)")
		f := p.Func("hpke", "KDF", "hash")
		if f == nil {
			c.undecided("C07.kdfhash", "(hpke.KDF).hash", "anchor does not resolve", "")
			return
		}
		for _, t := range []struct {
			id   int64
			want string
		}{{1, "SHA256"}, {2, "SHA384"}, {3, "SHA512"}} {
			what := fmt.Sprintf("(hpke.KDF).hash: KDF 0x%04x hashes with %s", t.id, t.want)
			q := &GuardQuery{P: p, Root: f, MaxDepth: 0}
			q.Args = []lat{latInt(t.id)}
			r := runGuard(q)
			var got []string
			for _, ri := range r.Returns {
				if ri.Instr.Parent() != f || len(ri.Instr.Results) == 0 {
					continue
				}
				d := descVal(ri.Instr.Results[0])
				// crypto.SHA384.New is a bound method value: a closure over the constant receiver
				if mc, ok := ri.Instr.Results[0].(*ssa.MakeClosure); ok && len(mc.Bindings) == 1 {
					if k, ok := mc.Bindings[0].(*ssa.Const); ok && k.Value != nil {
						d = map[string]string{"4": "crypto.SHA224", "5": "crypto.SHA256", "6": "crypto.SHA384", "7": "crypto.SHA512"}[k.Value.ExactString()] + "." + strings.TrimSuffix(mc.Fn.Name(), "$bound")
					}
				}
				got = append(got, d)
			}
			got = uniq(got)
			ok := len(got) == 1 && strings.Contains(got[0], "crypto."+t.want)
			if ok {
				c.ok("C07.kdfhash", what, got[0], p.fnPos(f))
			} else {
				c.bad("C07.kdfhash", what, fmt.Sprintf("returns %v", got), p.fnPos(f))
			}
		}
	})
}

var _ = token.NoPos

// checkBLSLenBeforeDecode: in sign/bls every decoding of a signature or key (G1/G2 SetBytes, which accepts a
// prefix and ignores the rest - the recorded C09 finding) is preceded, on every path, by the exact-length
// check of the same bytes.
func checkBLSLenBeforeDecode(c *Ctx, p *Program, rule string) {
	n, nbad := 0, 0
	var fs []*ssa.Function
	for f := range p.AllFuncs {
		if f.Blocks != nil && funcPkgPath(f) == circlPath+"/sign/bls" && f.Synthetic == "" {
			fs = append(fs, f)
		}
	}
	sort.Slice(fs, func(i, j int) bool { return fs[i].String() < fs[j].String() })
	for _, f := range fs {
		type site struct {
			in  ssa.Instruction
			arg ssa.Value
			idx int
		}
		var checks, decodes []site
		for _, b := range f.Blocks {
			for i, in := range b.Instrs {
				ci, ok := in.(ssa.CallInstruction)
				if !ok {
					continue
				}
				name := normName(p.staticCalleeName(ci.Common()))
				switch {
				case name == "sign/bls.checkLen" && len(ci.Common().Args) > 0:
					checks = append(checks, site{in, ci.Common().Args[0], i})
				case (name == "(ecc/bls12381.G1).SetBytes" || name == "(ecc/bls12381.G2).SetBytes") && len(ci.Common().Args) > 1:
					decodes = append(decodes, site{in, ci.Common().Args[1], i})
				}
			}
		}
		for _, d := range decodes {
			n++
			ok := false
			for _, ck := range checks {
				if ck.arg != d.arg && descVal(ck.arg) != descVal(d.arg) {
					continue
				}
				if ck.in.Block() == d.in.Block() && ck.idx < d.idx || ck.in.Block() != d.in.Block() && ck.in.Block().Dominates(d.in.Block()) {
					ok = true
				}
			}
			what := fmt.Sprintf("%s: the bytes decoded at %s had their exact length checked first", fname(f), p.pos(d.in.Pos()))
			if ok {
				c.ok(rule, what, "a checkLen call on the same bytes dominates the decoding", p.pos(d.in.Pos()))
			} else {
				nbad++
				c.bad(rule, what, "no checkLen call on these bytes dominates the SetBytes call: SetBytes decodes a prefix, so an encoding followed by stray bytes is accepted here", p.pos(d.in.Pos()))
			}
		}
	}
	c.count("bls_decode_sites", n)
	if n < 6 {
		c.undecided(rule, "decoding sites in sign/bls", fmt.Sprintf("only %d found (floor 6)", n), "")
	}
	_ = nbad
}

func init() {
	for _, prop := range []string{"C09", "C02"} {
		prop := prop
		wrapProp(prop, func(c *Ctx, p *Program) {
			c.Clauses = append(c.Clauses, prop+".blslen: every G1 / G2 decoding in sign/bls is dominated by the exact-length check of the same bytes")
			checkBLSLenBeforeDecode(c, p, prop+".blslen")
		})
	}
}

// fieldIs: a ValAssume fixing the value loaded from field name of any object inside function f.
func fieldIs(f *ssa.Function, name string, v int64) ValAssume {
	return ValAssume{Name: "field " + name, Val: latInt(v), Match: func(x ssa.Value, in *ssa.Function) bool {
		if in != f {
			return false
		}
		ld, ok := x.(*ssa.UnOp)
		if !ok || ld.Op != token.MUL {
			return false
		}
		fa, ok := ld.X.(*ssa.FieldAddr)
		return ok && fieldName(fa) == name
	}}
}

func init() {
	wrapProp("C19", func(c *Ctx, p *Program) {
		c.Clauses = append(c.Clauses, "C19.measlen: the vector-valued encoders refuse a measurement with more entries than the configured length (the surplus would be dropped and the report accepted), and accept one of exactly that length")
		for _, t := range [][2]string{{"vdaf/prio3/sumvec", "flpSumVec"}, {"vdaf/prio3/mhcv", "flpMultiHotCountVec"}} {
			f := p.Func(t[0], t[1], "Encode")
			if f == nil {
				c.undecided("C19.measlen", t[0]+".Encode", "anchor does not resolve", "")
				continue
			}
			c.evalAcceptRule(p, "C19.measlen", "a measurement of length+1 entries is refused", f, map[string]lat{"measurement": latSliceLen(4)}, []ValAssume{fieldIs(f, "length", 3)}, false)
			c.evalAcceptRule(p, "C19.measlen", "a measurement of length-1 entries is refused", f, map[string]lat{"measurement": latSliceLen(2)}, []ValAssume{fieldIs(f, "length", 3)}, false)
		}
	})
}

// checkNoasmForwarders: in the files that stand in for the assembly (..._noasm.go) a one-line forwarder named
// op hands its parameters, in order, to the portable routine of the same operation (opGeneric, or the
// operation name with another suffix of that kind). A forwarder that calls a sibling (modp -> subGeneric)
// compiles and is wrong only in the builds that use the file.
func checkNoasmForwarders(c *Ctx, p *Program, rule string) {
	var fs []*ssa.Function
	for f := range p.AllFuncs {
		if f.Blocks != nil && isCirclFunc(f) && f.Synthetic == "" && f.Parent() == nil && strings.HasSuffix(strings.Split(p.pos(f.Pos()), ":")[0], "_noasm.go") {
			fs = append(fs, f)
		}
	}
	sort.Slice(fs, func(i, j int) bool { return fs[i].String() < fs[j].String() })
	if len(fs) == 0 {
		c.ok(rule, "forwarders of the no-assembly files", "not part of this build configuration (the assembly back-end is compiled instead)", "")
		return
	}
	n := 0
	for _, f := range fs {
		// a forwarder: one block, one call, then return
		if len(f.Blocks) != 1 {
			continue
		}
		var calls []ssa.CallInstruction
		for _, in := range f.Blocks[0].Instrs {
			if ci, ok := in.(ssa.CallInstruction); ok {
				calls = append(calls, ci)
			}
		}
		if len(calls) != 1 || calls[0].Common().StaticCallee() == nil {
			continue
		}
		cal := calls[0].Common().StaticCallee()
		if cal.Pkg != f.Pkg {
			continue
		}
		n++
		what := fmt.Sprintf("%s forwards to the portable routine of the same operation", fname(f))
		lf, lc := strings.ToLower(f.Name()), strings.ToLower(cal.Name())
		var bad []string
		if !strings.HasPrefix(lc, lf) {
			bad = append(bad, "calls "+cal.Name()+", the routine of another operation")
		}
		for i, a := range calls[0].Common().Args {
			if len(calls[0].Common().Args) != len(f.Params) {
				break // another arity: only the operation is compared
			}
			if a != ssa.Value(f.Params[i]) {
				bad = append(bad, fmt.Sprintf("argument %d is not parameter %d", i, i))
			}
		}
		if len(bad) > 0 {
			c.bad(rule, what, strings.Join(bad, "; ")+": builds without the assembly (purego, other architectures) compute a different function here", p.fnPos(f))
		} else {
			c.ok(rule, what, "calls "+cal.Name()+" with its parameters in order", p.fnPos(f))
		}
	}
	c.count("noasm_forwarders", n)
	if n < 20 {
		c.undecided(rule, "forwarders of the no-assembly files", fmt.Sprintf("only %d found in %d functions (floor 20)", n, len(fs)), "")
	}
}

func init() {
	for _, prop := range []string{"C14", "C06", "C12"} {
		prop := prop
		wrapProp(prop, func(c *Ctx, p *Program) {
			c.Clauses = append(c.Clauses, prop+".noasmfwd: every one-line forwarder of a ..._noasm.go file calls the portable routine of its own operation with its parameters in order (decided in the configurations that compile those files)")
			if prop == "C14" {
				// C14 analyses the portable configuration next to the default one in every tier
				if pg := c.Prog("amd64-purego"); pg != nil {
					checkNoasmForwarders(c, pg, prop+".noasmfwd")
				}
				return
			}
			checkNoasmForwarders(c, p, prop+".noasmfwd")
		})
	}
}

// checkScalarCompare: the NIST-curve scalar type keeps whatever bytes its decoder was given (values not below
// the order are accepted - the recorded C09 finding, pinned by the repository's tests). Two consequences are
// decided here. IsZero must test the value, not the raw field: the encoding of the order is a zero scalar
// (oprf's zero-blind guard). IsEqual must stay a comparison of the encodings: zk/dleq and oprf compare the
// recomputed challenge with the decoded one through it, and a value comparison would accept c+N for c.
func checkScalarCompare(c *Ctx, p *Program, rule string, wantZero, wantEqual bool) {
	rawArgs := func(f *ssa.Function) (raw, cmps int) {
		for _, b := range f.Blocks {
			for _, in := range b.Instrs {
				ci, ok := in.(ssa.CallInstruction)
				if !ok {
					continue
				}
				name := p.staticCalleeName(ci.Common())
				if name != "crypto/subtle.ConstantTimeCompare" && name != "bytes.Equal" {
					continue
				}
				cmps++
				for _, a := range ci.Common().Args {
					ld, ok := a.(*ssa.UnOp)
					if !ok || ld.Op != token.MUL {
						continue
					}
					fa, ok := ld.X.(*ssa.FieldAddr)
					if ok && fieldName(fa) == "k" && strings.HasSuffix(derefType(fa.X.Type()).String(), "group.wScl") {
						raw++
					}
				}
			}
		}
		return
	}
	if wantZero {
		f := p.Func("group", "wScl", "IsZero")
		what := "(*group.wScl).IsZero tests the value of the scalar, not its raw encoding"
		if f == nil {
			c.undecided(rule, what, "anchor does not resolve", "")
		} else if raw, _ := rawArgs(f); raw > 0 {
			c.bad(rule, what, "the raw k field is compared with zero bytes: the scalar decoded from the encoding of the order acts as zero and tests as non-zero", p.fnPos(f))
		} else {
			c.ok(rule, what, "no byte comparison of the raw field", p.fnPos(f))
		}
	}
	if wantEqual {
		f := p.Func("group", "wScl", "IsEqual")
		what := "(*group.wScl).IsEqual compares the encodings of the two scalars"
		if f == nil {
			c.undecided(rule, what, "anchor does not resolve", "")
		} else if raw, cmps := rawArgs(f); cmps == 1 && raw == 2 {
			c.ok(rule, what, "one byte comparison of the two raw fields", p.fnPos(f))
		} else {
			c.bad(rule, what, fmt.Sprintf("%d byte comparisons with %d raw operands: a comparison of values accepts c+N for a challenge c (the decoder does not reduce), so an altered proof verifies", cmps, raw), p.fnPos(f))
		}
	}
}

func init() {
	wrapProp("C12", func(c *Ctx, p *Program) {
		c.Clauses = append(c.Clauses, "C12.scalarcmp: the zero test of the NIST-curve scalars is made on the value modulo the order (the decoder accepts values not below it)")
		checkScalarCompare(c, p, "C12.scalarcmp", true, false)
	})
	wrapProp("C16", func(c *Ctx, p *Program) {
		c.Clauses = append(c.Clauses, "C16.scalarcmp: the zero-blind guard sees the value of the blind, and the challenge comparison of the DLEQ verifier is a comparison of encodings (a value comparison would accept c+N, which the scalar decoder does not refuse)")
		checkScalarCompare(c, p, "C16.scalarcmp", true, true)
	})
}

func init() {
	wrapProp("C16", func(c *Ctx, p *Program) {
		c.Clauses = append(c.Clauses, "C16.freshblind: every blinded element is computed into a new group element (blinding in place into a hashed point shared between equal inputs multiplies the blinds together)")
		c.callArgRule(p, "C16.freshblind", "the blinded element is computed into a fresh element", p.Func("oprf", "client", "blind"), "invoke (group.Element).Mul", "",
			map[int]string{0: `call:invoke \(group\.(Group\)\.NewElement|Element\)\.Copy).*`})
	})
}

// checkWholeBatch: the function fills the slice it returns element by element with an index that runs over
// the whole input from 0 (a range loop or a counter from 0) in the function itself.
func checkWholeBatch(c *Ctx, p *Program, rule, what string, f *ssa.Function) {
	if f == nil {
		c.undecided(rule, what, "anchor does not resolve", "")
		return
	}
	n := 0
	var bad []string
	for _, b := range f.Blocks {
		for _, in := range b.Instrs {
			st, ok := in.(*ssa.Store)
			if !ok {
				continue
			}
			ia, ok := st.Addr.(*ssa.IndexAddr)
			if !ok {
				continue
			}
			if _, isMk := ia.X.(*ssa.MakeSlice); !isMk {
				continue
			}
			n++
			if idx := descVal(ia.Index); !wholeRangeIndex.MatchString(idx) {
				bad = append(bad, fmt.Sprintf("%s: index %s", p.pos(st.Pos()), idx))
			}
		}
	}
	nGo := 0
	for _, b := range f.Blocks {
		for _, in := range b.Instrs {
			if _, ok := in.(*ssa.Go); ok {
				nGo++
			}
		}
	}
	switch {
	case nGo > 0:
		// a parallel evaluation may be correct: which indices its workers cover is a question about values
		c.ok(rule, fname(f)+": "+what, fmt.Sprintf("not decided: %d goroutines are started and the coverage of their index ranges is not analysed", nGo), p.fnPos(f))
	case n == 0:
		c.ok(rule, fname(f)+": "+what, "not decided: the result is not filled by indexed stores in this function", p.fnPos(f))
	case len(bad) > 0:
		c.bad(rule, fname(f)+": "+what, strings.Join(bad, "; ")+": the index does not run over the whole batch from 0", p.fnPos(f))
	default:
		c.ok(rule, fname(f)+": "+what, fmt.Sprintf("%d store(s) indexed by a variable that runs from 0 over the whole input", n), p.fnPos(f))
	}
}

func init() {
	wrapProp("C16", func(c *Ctx, p *Program) {
		c.Clauses = append(c.Clauses, "C16.wholebatch: the server evaluates every element of the batch (one loop from 0 over the whole request)")
		checkWholeBatch(c, p, "C16.wholebatch", "every blinded element of the request is evaluated", p.Func("oprf", "server", "evaluate"))
	})
}
