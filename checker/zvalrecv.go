package main

import (
	"fmt"
	"go/token"
	"go/types"
	"sort"
	"strings"

	"golang.org/x/tools/go/ssa"
)

// valueReceiverWrites: methods with a value (non-pointer) receiver that write to the receiver's copy
// and never hand the copy out: the write is lost.
func valueReceiverWrites(p *Program, f *ssa.Function) []string {
	if f.Signature.Recv() == nil || len(f.Params) == 0 {
		return nil
	}
	recv := f.Params[0]
	if _, isPtr := recv.Type().Underlying().(*types.Pointer); isPtr {
		return nil
	}
	switch recv.Type().Underlying().(type) {
	case *types.Struct, *types.Array:
	default:
		return nil
	}
	// the cell the receiver is spilled to
	var cell *ssa.Alloc
	for _, r := range *recv.Referrers() {
		if st, ok := r.(*ssa.Store); ok && st.Val == ssa.Value(recv) {
			if a, ok := st.Addr.(*ssa.Alloc); ok {
				cell = a
			}
		}
	}
	if cell == nil {
		return nil
	}
	mod := p.Mod()
	var writes []string
	var writers []ssa.Instruction
	reads := 0
	escapes := false
	for _, b := range f.Blocks {
		for _, in := range b.Instrs {
			switch x := in.(type) {
			case *ssa.Store:
				if base, _ := memRoot(x.Addr); base == ssa.Value(cell) && x.Val != ssa.Value(recv) {
					writes = append(writes, p.pos(x.Pos()))
					writers = append(writers, in)
				}
				if base, _ := memRoot(x.Val); base == ssa.Value(cell) {
					escapes = true // the address (or a loaded copy) is stored somewhere
				}
			case *ssa.UnOp:
				if x.Op == token.MUL {
					if base, _ := memRoot(x.X); base == ssa.Value(cell) && x.Referrers() != nil && len(*x.Referrers()) > 0 {
						reads++
					}
				}
			case *ssa.Return:
				for _, v := range x.Results {
					if base, _ := memRoot(v); base == ssa.Value(cell) {
						escapes = true
					}
				}
			case ssa.CallInstruction:
				c := x.Common()
				var args []ssa.Value
				if c.IsInvoke() {
					args = append(args, c.Value)
				}
				args = append(args, c.Args...)
				for j, a := range args {
					if base, _ := memRoot(a); base != ssa.Value(cell) || !pointerLike(a.Type()) {
						continue
					}
					cal := c.StaticCallee()
					wr := writesThrough(p, cal, j, 0)
					for _, i := range externalWrites(p.staticCalleeName(c), len(args)) {
						if i == j {
							wr = true
						}
					}
					if wr {
						writes = append(writes, p.pos(x.Pos()))
						writers = append(writers, in)
					} else {
						reads++ // handed to a callee that does not write it: it is read there
					}
					_ = mod
				}
			}
		}
	}
	if escapes || reads > 0 {
		return nil // the modified copy is used afterwards (or handed out)
	}
	_ = writers
	return writes
}

// valRecvRule: a method that modifies its receiver has a pointer receiver: with a value receiver the
// operation works on a copy and its result is thrown away (the code still compiles and every call site
// type-checks).
func (c *Ctx) valRecvRule(p *Program, rule string, prefixes ...string) {
	for _, pre := range prefixes {
		var hits []string
		n := 0
		for f := range p.AllFuncs {
			if f.Blocks == nil || !sourceFunc(f) || !isCirclFunc(f) || f.Signature.Recv() == nil {
				continue
			}
			rel := strings.TrimPrefix(funcPkgPath(f), circlPath+"/")
			if !(rel == strings.TrimSuffix(pre, "/") || strings.HasPrefix(rel, strings.TrimSuffix(pre, "/")+"/")) {
				continue
			}
			n++
			if w := valueReceiverWrites(p, f); len(w) > 0 {
				hits = append(hits, fmt.Sprintf("%s writes only a copy of its receiver at %s", fname(f), strings.Join(w, ", ")))
			}
		}
		what := pre + ": no method computes into a copy of its (value) receiver that is then dropped"
		sort.Strings(hits)
		if len(hits) > 0 {
			c.bad(rule, what, strings.Join(hits, "; "), "")
		} else {
			c.ok(rule, what, fmt.Sprintf("%d methods inspected", n), "")
		}
	}
}

func init() {
	for prop, pres := range map[string][]string{"C12": {"math/", "ecc/bls12381/ff", "vdaf/prio3/arith", "group"}, "C13": {"ecc/", "group", "sign/ed25519", "sign/ed448"}} {
		prop, pres := prop, pres
		prev := registry[prop]
		registry[prop] = func(c *Ctx) {
			prev(c)
			if p := c.Prog("amd64"); p != nil {
				c.Clauses = append(c.Clauses, prop+".valrecv: no arithmetic method writes only a copy of its value receiver (a dropped pointer receiver leaves every call site compiling and the result discarded)")
				c.valRecvRule(p, prop+".valrecv", pres...)
			}
		}
	}
}
