package main

// Abstract "transcript" extraction: run the GUARD engine's constant propagation
// on a function with chosen abstract arguments and list, in dominance order,
// the calls that remain executable together with a description of their byte
// arguments (constant bytes, parameters, or unknown).

import (
	"fmt"
	"go/constant"
	"go/token"
	"go/types"
	"sort"
	"strings"

	"golang.org/x/tools/go/ssa"
)

type obsCall struct {
	In     *ssa.Function
	Site   ssa.CallInstruction
	Callee string
	Args   []string // description of each argument (receiver first for invoke)
	Lats   []lat
}

// stripToRoot follows slices / conversions / changetypes back to the underlying value.
func stripToRoot(v ssa.Value) ssa.Value {
	for {
		switch x := v.(type) {
		case *ssa.Slice:
			v = x.X
		case *ssa.Convert:
			v = x.X
		case *ssa.ChangeType:
			v = x.X
		case *ssa.MakeInterface:
			v = x.X
		default:
			return v
		}
	}
}

// arrayLitElems returns the values stored at constant indices of a local array alloc.
func arrayLitElems(a *ssa.Alloc) ([]ssa.Value, bool) {
	pt, ok := a.Type().Underlying().(*types.Pointer)
	if !ok {
		return nil, false
	}
	at, ok := pt.Elem().Underlying().(*types.Array)
	if !ok {
		return nil, false
	}
	out := make([]ssa.Value, at.Len())
	for _, r := range *a.Referrers() {
		ia, ok := r.(*ssa.IndexAddr)
		if !ok {
			continue
		}
		k, ok := ia.Index.(*ssa.Const)
		if !ok || k.Value == nil {
			return nil, false
		}
		i, _ := constant.Int64Val(k.Value)
		for _, rr := range *ia.Referrers() {
			if st, ok := rr.(*ssa.Store); ok && st.Addr == ia {
				if i >= 0 && int(i) < len(out) {
					if out[i] != nil {
						return nil, false // stored twice
					}
					out[i] = st.Val
				}
			}
		}
	}
	return out, true
}

// describeBytes renders what is known about a byte-slice/string argument: constants known to the
// lattice, array literals whose elements the lattice knows, otherwise the provenance (descVal).
func describeBytes(v ssa.Value, get func(ssa.Value) lat) string {
	if l := get(v); l.k == kNil {
		return "nil"
	}
	root := v
	if s, ok := v.(*ssa.Slice); ok && s.Low == nil && s.High == nil {
		root = s.X
	}
	if a, ok := root.(*ssa.Alloc); ok {
		if elems, ok := arrayLitElems(a); ok && len(elems) <= 64 {
			stored := 0
			var parts []string
			for _, e := range elems {
				if e == nil {
					parts = append(parts, "0")
					continue
				}
				stored++
				l := get(e)
				if l.k == kConst && l.c.Kind() == constant.Int {
					parts = append(parts, l.c.ExactString())
				} else {
					parts = append(parts, "("+describeScalar(e)+")")
				}
			}
			if stored > 0 {
				return "[" + strings.Join(parts, " ") + "]"
			}
		}
	}
	if p, ok := root.(*ssa.Parameter); ok {
		return paramDesc(p)
	}
	return descVal(v)
}

func calleeString(c *ssa.Call) string {
	if c.Call.IsInvoke() {
		return "invoke " + c.Call.Method.FullName()
	}
	if f := c.Call.StaticCallee(); f != nil {
		return f.String()
	}
	if b, ok := c.Call.Value.(*ssa.Builtin); ok {
		return "builtin." + b.Name()
	}
	return "?"
}

func fieldName(fa *ssa.FieldAddr) string {
	if pt, ok := fa.X.Type().Underlying().(*types.Pointer); ok {
		if st, ok := pt.Elem().Underlying().(*types.Struct); ok {
			return st.Field(fa.Field).Name()
		}
	}
	return "?"
}

// describeScalar: provenance of a scalar (used inside array literals), e.g. byte(len(ctx)).
func describeScalar(v ssa.Value) string {
	switch x := v.(type) {
	case *ssa.Convert:
		return describeScalar(x.X)
	case *ssa.Call:
		if b, ok := x.Call.Value.(*ssa.Builtin); ok && len(x.Call.Args) == 1 {
			return b.Name() + "(" + describeScalar(stripToRoot(x.Call.Args[0])) + ")"
		}
		return "call:" + short(calleeString(x))
	case *ssa.Parameter:
		return paramDesc(x)
	case *ssa.FreeVar:
		return freeVarDesc(x)
	case *ssa.UnOp:
		if x.Op == token.MUL {
			return "*" + describeScalar(x.X)
		}
	case *ssa.Alloc:
		return "local"
	case *ssa.FieldAddr:
		return "field:" + fieldName(x)
	case *ssa.Const:
		if x.Value != nil {
			return x.Value.ExactString()
		}
	}
	return "?"
}

// observe runs constant propagation and returns the executable calls whose callee name passes filter.
func (p *Program) observe(f *ssa.Function, args map[string]lat, assumes []Assume, filter func(callee string) bool) ([]obsCall, error) {
	q := &GuardQuery{P: p, Root: f, Assumes: assumes, MaxDepth: 1}
	if len(args) > 0 {
		q.Args = make([]lat, len(f.Params))
		for i := range q.Args {
			q.Args[i] = latTop
		}
		for n, v := range args {
			i := paramIdx(f, n)
			if i < 0 {
				return nil, fmt.Errorf("parameter %s does not exist in %s", n, fname(f))
			}
			q.Args[i] = v
		}
	}
	var out []obsCall
	q.Observe = func(in *ssa.Function, site ssa.CallInstruction, callee string, get func(ssa.Value) lat) {
		if !filter(callee) {
			return
		}
		c := site.Common()
		var vals []ssa.Value
		if c.IsInvoke() {
			vals = append(vals, c.Value)
		}
		vals = append(vals, c.Args...)
		oc := obsCall{In: in, Site: site, Callee: callee}
		for _, a := range vals {
			oc.Lats = append(oc.Lats, get(a))
			l := get(a)
			switch {
			case l.k == kConst:
				if l.c.Kind() == constant.String {
					oc.Args = append(oc.Args, fmt.Sprintf("%q", constant.StringVal(l.c)))
				} else {
					oc.Args = append(oc.Args, l.c.ExactString())
				}
			default:
				oc.Args = append(oc.Args, describeBytes(a, get))
			}
		}
		out = append(out, oc)
	}
	runGuard(q)
	// order calls by reverse postorder of their blocks (execution order on an acyclic executable path)
	rpoCache := map[*ssa.Function]map[*ssa.BasicBlock]int{}
	rpo := func(fn *ssa.Function) map[*ssa.BasicBlock]int {
		if m, ok := rpoCache[fn]; ok {
			return m
		}
		var post []*ssa.BasicBlock
		seen := map[*ssa.BasicBlock]bool{}
		var dfs func(b *ssa.BasicBlock)
		dfs = func(b *ssa.BasicBlock) {
			seen[b] = true
			for _, s := range b.Succs {
				if !seen[s] {
					dfs(s)
				}
			}
			post = append(post, b)
		}
		if len(fn.Blocks) > 0 {
			dfs(fn.Blocks[0])
		}
		m := map[*ssa.BasicBlock]int{}
		for i, b := range post {
			m[b] = len(post) - 1 - i
		}
		rpoCache[fn] = m
		return m
	}
	sort.SliceStable(out, func(i, j int) bool {
		a, b := out[i], out[j]
		if a.In != b.In {
			return false
		}
		ba, bb := a.Site.Block(), b.Site.Block()
		if ba == bb {
			return instrIndex(a.Site) < instrIndex(b.Site)
		}
		m := rpo(a.In)
		return m[ba] < m[bb]
	})
	return out, nil
}

func instrIndex(in ssa.Instruction) int {
	for i, x := range in.Block().Instrs {
		if x == in {
			return i
		}
	}
	return -1
}

// transcript lists the byte payloads of the named calls (argument argIdx), in order.
func (p *Program) transcript(f *ssa.Function, args map[string]lat, callee string, argIdx int) ([]string, error) {
	obs, err := p.observe(f, args, nil, func(c string) bool { return normName(c) == normName(callee) })
	if err != nil {
		return nil, err
	}
	var out []string
	for _, o := range obs {
		if o.In != f {
			continue
		}
		if argIdx < len(o.Args) && o.Args[argIdx] != "nil" && o.Args[argIdx] != `""` {
			// writing an empty payload is a no-op and not part of the byte sequence
			out = append(out, o.Args[argIdx])
		}
	}
	return out, nil
}

// transcriptRule compares an extracted transcript with the specification's.
func (c *Ctx) transcriptRule(p *Program, rule, what string, f *ssa.Function, args map[string]lat, callee string, argIdx int, want []string) {
	if f == nil {
		c.undecided(rule, what, "anchor function does not resolve", "")
		return
	}
	construct := fname(f) + ": " + what
	got, err := p.transcript(f, args, callee, argIdx)
	if err != nil {
		c.undecided(rule, construct, err.Error(), p.fnPos(f))
		return
	}
	if n := len(want); n > 0 && want[n-1] == "…" {
		// only the prefix is specified
		want = want[:n-1]
		if len(got) > len(want) {
			got = got[:len(want)]
		}
	}
	g, w := strings.Join(got, " ‖ "), strings.Join(want, " ‖ ")
	if g == w {
		c.ok(rule, construct, "byte sequence = "+w, p.fnPos(f))
	} else {
		c.bad(rule, construct, fmt.Sprintf("byte sequence is %s; specification: %s", g, w), p.fnPos(f))
	}
}
