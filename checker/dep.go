package main

// DEP engine: flow-insensitive may-dependence over go/ssa values and abstract
// memory objects, with bottom-up function summaries for circl callees and an
// "everything flows everywhere" summary for callees without analysable bodies
// (standard library, assembly stubs). Over-approximating flows means a rule of
// the form "sink must still depend on source" can never raise a false alarm.

import (
	"fmt"
	"go/types"
	"sort"

	"golang.org/x/tools/go/ssa"
)

type bits []uint64

func (b *bits) add(i int) bool {
	w := i / 64
	for len(*b) <= w {
		*b = append(*b, 0)
	}
	m := uint64(1) << uint(i%64)
	if (*b)[w]&m != 0 {
		return false
	}
	(*b)[w] |= m
	return true
}
func (b bits) has(i int) bool {
	w := i / 64
	return w < len(b) && b[w]&(1<<uint(i%64)) != 0
}
func (b *bits) union(o bits) bool {
	ch := false
	for len(*b) < len(o) {
		*b = append(*b, 0)
	}
	for i, w := range o {
		if (*b)[i]|w != (*b)[i] {
			(*b)[i] |= w
			ch = true
		}
	}
	return ch
}
func (b bits) each(f func(int)) {
	for wi, w := range b {
		for w != 0 {
			t := w & -w
			i := 0
			for m := t; m > 1; m >>= 1 {
				i++
			}
			f(wi*64 + i)
			w &^= t
		}
	}
}

// depSummary of a function: which inputs flow to which outputs.
// inputs/outputs are indexed by parameter position (receiver first).
type depSummary struct {
	nparams     int
	toResult    []bool   // param j -> any result
	toPointee   [][]bool // param j -> pointee of param k
	allToAll    bool
	resultFresh bool
}

type depEngine struct {
	p     *Program
	sums  map[*ssa.Function]*depSummary
	doing map[*ssa.Function]bool
	fas   map[*ssa.Function]*depFn
}

func (p *Program) Dep() *depEngine {
	if p.dep == nil {
		p.dep = &depEngine{p: p, sums: map[*ssa.Function]*depSummary{}, doing: map[*ssa.Function]bool{}, fas: map[*ssa.Function]*depFn{}}
	}
	return p.dep
}

// depFn is the solved dependence problem of one function.
type depFn struct {
	f        *ssa.Function
	labels   []string
	labelIx  map[string]int
	dep      map[ssa.Value]*bits
	pts      map[ssa.Value]*bits
	objName  []string
	objT     []*bits // taint of object contents
	objP     []*bits // objects pointed to from inside object
	paramObj []int
	fresh    map[ssa.Value]int
	eng      *depEngine
}

func (d *depFn) label(s string) int {
	if i, ok := d.labelIx[s]; ok {
		return i
	}
	i := len(d.labels)
	d.labels = append(d.labels, s)
	d.labelIx[s] = i
	return i
}

func (d *depFn) newObj(name string) int {
	d.objName = append(d.objName, name)
	d.objT = append(d.objT, &bits{})
	d.objP = append(d.objP, &bits{})
	return len(d.objName) - 1
}

func (d *depFn) depOf(v ssa.Value) *bits {
	b := d.dep[v]
	if b == nil {
		b = &bits{}
		d.dep[v] = b
	}
	return b
}
func (d *depFn) ptsOf(v ssa.Value) *bits {
	b := d.pts[v]
	if b == nil {
		b = &bits{}
		d.pts[v] = b
	}
	return b
}

func pointerLike(t types.Type) bool {
	switch u := t.Underlying().(type) {
	case *types.Pointer, *types.Slice, *types.Map, *types.Chan, *types.Signature, *types.Interface:
		return true
	case *types.Struct:
		for i := 0; i < u.NumFields(); i++ {
			if pointerLike(u.Field(i).Type()) {
				return true
			}
		}
	case *types.Array:
		return pointerLike(u.Elem())
	case *types.Tuple:
		for i := 0; i < u.Len(); i++ {
			if pointerLike(u.At(i).Type()) {
				return true
			}
		}
	}
	return false
}

// reach: transitive closure of objects through stored pointers.
func (d *depFn) reach(b bits) bits {
	var out bits
	var stack []int
	b.each(func(i int) {
		if out.add(i) {
			stack = append(stack, i)
		}
	})
	for len(stack) > 0 {
		o := stack[len(stack)-1]
		stack = stack[:len(stack)-1]
		d.objP[o].each(func(i int) {
			if out.add(i) {
				stack = append(stack, i)
			}
		})
	}
	return out
}

// fullDep: labels a value may depend on, including the contents of everything it points to.
func (d *depFn) fullDep(v ssa.Value) bits {
	var out bits
	out.union(*d.depOf(v))
	r := d.reach(*d.ptsOf(v))
	r.each(func(o int) { out.union(*d.objT[o]) })
	return out
}

func (e *depEngine) analyse(f *ssa.Function) *depFn {
	if fa, ok := e.fas[f]; ok {
		return fa
	}
	d := &depFn{f: f, labelIx: map[string]int{}, dep: map[ssa.Value]*bits{}, pts: map[ssa.Value]*bits{}, fresh: map[ssa.Value]int{}, eng: e}
	e.fas[f] = d
	globalObj := map[*ssa.Global]int{}
	for i, p := range f.Params {
		l := d.label(fmt.Sprintf("param:%d", i))
		d.depOf(p).add(l)
		d.depOf(p).add(d.label("param:" + p.Name()))
		o := d.newObj("pointee(" + p.Name() + ")")
		d.paramObj = append(d.paramObj, o)
		if pointerLike(p.Type()) {
			d.ptsOf(p).add(o)
			d.objT[o].add(l)
			d.objT[o].add(d.label("param:" + p.Name()))
			d.objP[o].add(o) // nested pointers inside the pointee stay within the same abstract object
		}
	}
	for i, fv := range f.FreeVars {
		l := d.label(fmt.Sprintf("freevar:%s", fv.Name()))
		d.depOf(fv).add(l)
		o := d.newObj(fmt.Sprintf("freevar(%d)", i))
		d.ptsOf(fv).add(o)
		d.objT[o].add(l)
		d.objP[o].add(o)
	}
	valOperand := func(v ssa.Value) {
		// materialise objects for globals / consts on demand
		switch x := v.(type) {
		case *ssa.Global:
			if _, ok := globalObj[x]; !ok {
				o := d.newObj("global " + x.Name())
				globalObj[x] = o
				d.ptsOf(x).add(o)
				l := d.label("global:" + short(x.String()))
				d.objT[o].add(l)
				d.depOf(x).add(l)
				d.objP[o].add(o)
			}
		case *ssa.Const:
			if x.Value != nil {
				d.depOf(x).add(d.label("const:" + x.Value.ExactString()))
			}
		}
	}
	changed := true
	upd := func(ch bool) {
		if ch {
			changed = true
		}
	}
	flow := func(dst ssa.Value, srcs ...ssa.Value) {
		for _, s := range srcs {
			if s == nil {
				continue
			}
			valOperand(s)
			upd(d.depOf(dst).union(*d.depOf(s)))
			upd(d.ptsOf(dst).union(*d.ptsOf(s)))
		}
	}
	freshObj := func(v ssa.Value, name string) int {
		if o, ok := d.fresh[v]; ok {
			return o
		}
		o := d.newObj(name)
		d.fresh[v] = o
		return o
	}
	for iter := 0; changed && iter < 100; iter++ {
		changed = false
		for _, b := range f.Blocks {
			for _, in := range b.Instrs {
				switch x := in.(type) {
				case *ssa.Alloc:
					o := freshObj(x, "alloc@"+e.p.pos(x.Pos()))
					upd(d.ptsOf(x).add(o))
				case *ssa.MakeSlice:
					o := freshObj(x, "makeslice@"+e.p.pos(x.Pos()))
					upd(d.ptsOf(x).add(o))
					flow(x, x.Len, x.Cap)
				case *ssa.MakeMap, *ssa.MakeChan:
					o := freshObj(x.(ssa.Value), "make@"+e.p.pos(x.Pos()))
					upd(d.ptsOf(x.(ssa.Value)).add(o))
				case *ssa.MakeClosure:
					for _, bnd := range x.Bindings {
						flow(x, bnd)
					}
				case *ssa.FieldAddr:
					flow(x, x.X)
					if par, ok := x.X.(*ssa.Parameter); ok {
						st := par.Type().Underlying().(*types.Pointer).Elem().Underlying().(*types.Struct)
						upd(d.depOf(x).add(d.label("field:" + par.Name() + "." + st.Field(x.Field).Name())))
					}
					// a field promoted from an embedded struct: P.x where P embeds the struct that has x
					if in, ok := x.X.(*ssa.FieldAddr); ok {
						if par, ok := in.X.(*ssa.Parameter); ok {
							if ost, ok := par.Type().Underlying().(*types.Pointer).Elem().Underlying().(*types.Struct); ok && ost.Field(in.Field).Embedded() {
								if ist, ok := ost.Field(in.Field).Type().Underlying().(*types.Struct); ok {
									upd(d.depOf(x).add(d.label("field:" + par.Name() + "." + ist.Field(x.Field).Name())))
								}
							}
						}
					}
				case *ssa.Field:
					flow(x, x.X)
					if par, ok := x.X.(*ssa.Parameter); ok {
						if st, ok := par.Type().Underlying().(*types.Struct); ok {
							upd(d.depOf(x).add(d.label("field:" + par.Name() + "." + st.Field(x.Field).Name())))
						}
					}
				case *ssa.IndexAddr:
					flow(x, x.X, x.Index)
				case *ssa.Index:
					flow(x, x.X, x.Index)
				case *ssa.Slice:
					flow(x, x.X, x.Low, x.High, x.Max)
				case *ssa.Lookup:
					flow(x, x.X, x.Index)
					// contents
					d.loadFrom(x, x.X, upd)
				case *ssa.UnOp:
					valOperand(x.X)
					if x.Op.String() == "*" {
						upd(d.depOf(x).union(*d.depOf(x.X)))
						d.loadFrom(x, x.X, upd)
					} else if x.Op.String() == "<-" {
						flow(x, x.X)
						d.loadFrom(x, x.X, upd)
					} else {
						flow(x, x.X)
					}
				case *ssa.Store:
					valOperand(x.Val)
					valOperand(x.Addr)
					d.ptsOf(x.Addr).each(func(o int) {
						upd(d.objT[o].union(*d.depOf(x.Val)))
						upd(d.objP[o].union(*d.ptsOf(x.Val)))
					})
				case *ssa.MapUpdate:
					valOperand(x.Value)
					valOperand(x.Key)
					d.ptsOf(x.Map).each(func(o int) {
						upd(d.objT[o].union(*d.depOf(x.Value)))
						upd(d.objT[o].union(*d.depOf(x.Key)))
						upd(d.objP[o].union(*d.ptsOf(x.Value)))
					})
				case *ssa.Send:
					d.ptsOf(x.Chan).each(func(o int) {
						upd(d.objT[o].union(*d.depOf(x.X)))
						upd(d.objP[o].union(*d.ptsOf(x.X)))
					})
				case *ssa.Phi:
					flow(x, x.Edges...)
				case *ssa.BinOp:
					flow(x, x.X, x.Y)
				case *ssa.Convert:
					flow(x, x.X)
				case *ssa.ChangeType:
					flow(x, x.X)
				case *ssa.ChangeInterface:
					flow(x, x.X)
				case *ssa.MakeInterface:
					flow(x, x.X)
				case *ssa.SliceToArrayPointer:
					flow(x, x.X)
				case *ssa.TypeAssert:
					flow(x, x.X)
				case *ssa.Extract:
					flow(x, x.Tuple)
				case *ssa.Range:
					flow(x, x.X)
				case *ssa.Next:
					flow(x, x.Iter)
					d.loadFrom(x, x.Iter, upd)
				case *ssa.Call:
					d.call(x, &x.Call, x, upd, valOperand)
				case *ssa.Defer:
					d.call(x, &x.Call, nil, upd, valOperand)
				case *ssa.Go:
					d.call(x, &x.Call, nil, upd, valOperand)
				}
			}
		}
	}
	return d
}

func (d *depFn) loadFrom(dst ssa.Value, addr ssa.Value, upd func(bool)) {
	d.ptsOf(addr).each(func(o int) {
		upd(d.depOf(dst).union(*d.objT[o]))
		upd(d.ptsOf(dst).union(*d.objP[o]))
	})
}

// summary computes (memoised) the parameter-level flow summary of f.
func (e *depEngine) summary(f *ssa.Function) *depSummary {
	if s, ok := e.sums[f]; ok {
		return s
	}
	n := len(f.Params)
	if f.Blocks == nil || e.doing[f] || !inlinable(f) {
		return &depSummary{nparams: n, allToAll: true}
	}
	e.doing[f] = true
	d := e.analyse(f)
	delete(e.doing, f)
	s := &depSummary{nparams: n, toResult: make([]bool, n), toPointee: make([][]bool, n)}
	var res bits
	for _, b := range f.Blocks {
		for _, in := range b.Instrs {
			if r, ok := in.(*ssa.Return); ok {
				for _, v := range r.Results {
					fd := d.fullDep(v)
					res.union(fd)
				}
			}
		}
	}
	for j := 0; j < n; j++ {
		lj := d.labelIx[fmt.Sprintf("param:%d", j)]
		s.toResult[j] = res.has(lj)
		s.toPointee[j] = make([]bool, n)
		for k := 0; k < n; k++ {
			if !pointerLike(f.Params[k].Type()) {
				continue
			}
			r := d.reach(*d.ptsOf(f.Params[k]))
			hit := false
			r.each(func(o int) {
				if d.objT[o].has(lj) {
					hit = true
				}
			})
			if j == k {
				hit = true
			}
			s.toPointee[j][k] = hit
		}
	}
	e.sums[f] = s
	return s
}

func (d *depFn) call(in ssa.Instruction, c *ssa.CallCommon, res ssa.Value, upd func(bool), valOperand func(ssa.Value)) {
	e := d.eng
	p := e.p
	var args []ssa.Value
	if c.IsInvoke() {
		args = append(args, c.Value)
	}
	args = append(args, c.Args...)
	for _, a := range args {
		valOperand(a)
	}
	name := p.staticCalleeName(c)
	if b, ok := c.Value.(*ssa.Builtin); ok {
		switch b.Name() {
		case "copy":
			src := d.fullDep(args[1])
			d.ptsOf(args[0]).each(func(o int) { upd(d.objT[o].union(src)) })
			if res != nil {
				upd(d.depOf(res).union(*d.depOf(args[0])))
				upd(d.depOf(res).union(*d.depOf(args[1])))
			}
			return
		case "append":
			if res == nil {
				return
			}
			o, ok := d.fresh[res]
			if !ok {
				o = d.newObj("append@" + p.pos(in.Pos()))
				d.fresh[res] = o
			}
			upd(d.ptsOf(res).add(o))
			upd(d.ptsOf(res).union(*d.ptsOf(args[0])))
			upd(d.depOf(res).union(*d.depOf(args[0])))
			var src bits
			for _, a := range args {
				src.union(d.fullDep(a))
			}
			d.ptsOf(res).each(func(oo int) { upd(d.objT[oo].union(src)) })
			for _, a := range args[1:] {
				d.ptsOf(res).each(func(oo int) { upd(d.objP[oo].union(d.reach(*d.ptsOf(a)))) })
			}
			return
		case "len", "cap":
			// a length carries no content: only the label "len:<what>"
			if res != nil {
				n := args[0].Name()
				if par, ok := stripToRoot(args[0]).(*ssa.Parameter); ok {
					n = "param:" + par.Name()
				}
				upd(d.depOf(res).add(d.label("len:" + n)))
			}
			return
		default:
			if res != nil {
				for _, a := range args {
					upd(d.depOf(res).union(*d.depOf(a)))
					upd(d.ptsOf(res).union(*d.ptsOf(a)))
				}
			}
			return
		}
	}
	if res != nil {
		if name != "" {
			upd(d.depOf(res).add(d.label("call:" + name)))
		}
	}
	var callees []*ssa.Function
	if sc := c.StaticCallee(); sc != nil {
		callees = []*ssa.Function{sc}
	} else {
		callees = p.dynamicCallees(d.f, in.(ssa.CallInstruction))
		if len(callees) > 8 {
			callees = nil
		}
		if _, ok := c.Value.(*ssa.MakeClosure); !ok && !c.IsInvoke() {
			// function value: include the value's own deps (closure bindings)
			args = append(args, c.Value)
		}
	}
	all := len(callees) == 0
	var sums []*depSummary
	for _, cal := range callees {
		s := e.summary(cal)
		if s.allToAll || s.nparams != len(args) {
			all = true
			break
		}
		sums = append(sums, s)
		if res != nil {
			cn := short(cal.String())
			if cal.Origin() != nil {
				cn = short(cal.Origin().String())
			}
			upd(d.depOf(res).add(d.label("call:" + cn)))
		}
	}
	full := make([]bits, len(args))
	for i, a := range args {
		full[i] = d.fullDep(a)
	}
	resPtr := res != nil && pointerLike(res.Type())
	if resPtr {
		o, ok := d.fresh[res]
		if !ok {
			o = d.newObj("result@" + p.pos(in.Pos()))
			d.fresh[res] = o
		}
		upd(d.ptsOf(res).add(o))
	}
	if all {
		var u bits
		for _, fb := range full {
			u.union(fb)
		}
		if res != nil {
			upd(d.depOf(res).union(u))
			if resPtr {
				for _, a := range args {
					upd(d.ptsOf(res).union(d.reach(*d.ptsOf(a))))
				}
				d.ptsOf(res).each(func(o int) { upd(d.objT[o].union(u)) })
			}
		}
		for _, a := range args {
			if !pointerLike(a.Type()) {
				continue
			}
			if isReadOnlyArg(name, a, args) {
				continue
			}
			r := d.reach(*d.ptsOf(a))
			r.each(func(o int) { upd(d.objT[o].union(u)) })
		}
		return
	}
	for _, s := range sums {
		for j := range args {
			if res != nil && s.toResult[j] {
				upd(d.depOf(res).union(full[j]))
				if resPtr {
					upd(d.ptsOf(res).union(d.reach(*d.ptsOf(args[j]))))
					d.ptsOf(res).each(func(o int) { upd(d.objT[o].union(full[j])) })
				}
			}
			for k := range args {
				if j != k && s.toPointee[j][k] {
					r := d.reach(*d.ptsOf(args[k]))
					r.each(func(o int) { upd(d.objT[o].union(full[j])) })
				}
			}
		}
	}
}

// isReadOnlyArg: a few standard-library callees are known not to write their inputs;
// keeping them out of the all-to-all summary avoids masking dropped flows.
func isReadOnlyArg(callee string, a ssa.Value, args []ssa.Value) bool {
	switch callee {
	case "bytes.Equal", "crypto/subtle.ConstantTimeCompare", "crypto/subtle.ConstantTimeEq",
		"crypto/subtle.ConstantTimeByteEq", "errors.New", "fmt.Errorf", "fmt.Sprintf", "bytes.Compare":
		return true
	case "crypto/subtle.ConstantTimeCopy":
		return len(args) == 3 && a == args[2]
	case "invoke (io.Writer).Write":
		// the receiver absorbs; the byte slice argument of Write is only read
		if len(args) == 2 && a == args[1] {
			return true
		}
	}
	return false
}

// ---- queries ----

// labelsOf renders the labels in b (sorted).
func (d *depFn) labelsOf(b bits) []string {
	var out []string
	b.each(func(i int) { out = append(out, d.labels[i]) })
	sort.Strings(out)
	return out
}

func (d *depFn) hasLabel(b bits, l string) bool {
	i, ok := d.labelIx[l]
	return ok && b.has(i)
}

// callSites returns the call instructions in f whose callee name is one of names.
func (p *Program) callSites(f *ssa.Function, names ...string) []ssa.CallInstruction {
	set := map[string]bool{}
	for _, n := range names {
		set[normName(n)] = true
	}
	var out []ssa.CallInstruction
	for _, b := range f.Blocks {
		for _, in := range b.Instrs {
			ci, ok := in.(ssa.CallInstruction)
			if !ok {
				continue
			}
			n := p.staticCalleeName(ci.Common())
			if set[normName(n)] {
				out = append(out, ci)
				continue
			}
			if ci.Common().StaticCallee() == nil {
				for _, cal := range p.dynamicCallees(f, ci) {
					cn := short(cal.String())
					if set[normName(cn)] {
						out = append(out, ci)
						break
					}
				}
			}
		}
	}
	return out
}
