package group_test

// Demonstration (C09 / C16, recorded as known finding): the ristretto255 scalar decoder hands the bytes to
// go-ristretto's Scalar.UnmarshalBinary, which clears the top three bits and reduces: 2^253 + s, 2^254 + s,
// 2^255 + s and s + L decode to the same scalar, so a DLEQ proof over ristretto255 (zk/dleq, oprf) whose
// challenge or response had its top bit flipped still verifies. Not repaired: the repository's
// TestDLEQ/ristretto255 fills a marshalled proof with random bytes and requires it to unmarshal, which a
// range check makes fail for most random strings.
//
// Copy to group/ and run: go test -run TestDemoRistrettoScalarNonCanonical ./group/

import (
	"bytes"
	"testing"

	"github.com/cloudflare/circl/group"
)

func TestDemoRistrettoScalarNonCanonical(t *testing.T) {
	g := group.Ristretto255
	five := g.NewScalar().SetUint64(5)
	enc, _ := five.MarshalBinary()
	alt := append([]byte(nil), enc...)
	alt[31] ^= 0x80
	s := g.NewScalar()
	if err := s.UnmarshalBinary(alt); err == nil {
		out, _ := s.MarshalBinary()
		if bytes.Equal(out, enc) {
			t.Errorf("the encoding of 5 with the top bit set was accepted and re-serialises as 5")
		}
	}
}
