package main

import (
	_ "embed"
	"encoding/json"
	"fmt"
	"go/constant"
	"go/token"
	"go/types"
	"os"
	"regexp"
	"sort"
	"strings"

	"golang.org/x/tools/go/ssa"
)

// ---- success predicates over the result tuple of a function ----

type successSpec struct {
	desc string
	may  func([]lat) bool
}

func succTrue(i int) successSpec {
	return successSpec{fmt.Sprintf("result %d == true", i), func(r []lat) bool { return i < len(r) && r[i].mayBeTrue() }}
}
func succNilErr(i int) successSpec {
	return successSpec{fmt.Sprintf("result %d (error) == nil", i), func(r []lat) bool { return i < len(r) && r[i].mayBeNil() }}
}
func succNonNil(i int) successSpec {
	return successSpec{fmt.Sprintf("result %d != nil", i), func(r []lat) bool { return i < len(r) && r[i].mayBeNonNil() }}
}

// succAuto picks the conventional success of a function: last result error==nil,
// or single bool true, or pointer non-nil.
func succAuto(f *ssa.Function) successSpec {
	res := f.Signature.Results()
	n := res.Len()
	if n == 0 {
		return successSpec{"returns at all", func([]lat) bool { return true }}
	}
	last := res.At(n - 1).Type()
	if isErrorType(last) {
		return succNilErr(n - 1)
	}
	if b, ok := last.Underlying().(*types.Basic); ok && b.Kind() == types.Bool {
		return succTrue(n - 1)
	}
	return succNonNil(n - 1)
}

func paramIdx(f *ssa.Function, name string) int {
	if strings.HasPrefix(name, "#") {
		var i int
		if _, err := fmt.Sscanf(name, "#%d", &i); err == nil && i < len(f.Params) {
			return i
		}
		return -1
	}
	for i, p := range f.Params {
		if p.Name() == name {
			recordParam(f, name, i)
			return i
		}
	}
	// the parameter may have been renamed: the rule tables refer to parameters by the names they had
	// when the rules were written; paramtable.json records their positions and types at that time
	if e, ok := paramTable()[fname(f)+"|"+name]; ok && e.Idx < len(f.Params) && f.Params[e.Idx].Type().String() == e.Type {
		return e.Idx
	}
	return -1
}

type paramEntry struct {
	Idx  int    `json:"idx"`
	Type string `json:"type"`
}

//go:embed paramtable.json
var paramTableJSON []byte

var (
	paramTab     map[string]paramEntry
	paramRecords = map[string]paramEntry{}
)

func paramTable() map[string]paramEntry {
	if paramTab == nil {
		paramTab = map[string]paramEntry{}
		_ = json.Unmarshal(paramTableJSON, &paramTab)
	}
	return paramTab
}

func recordParam(f *ssa.Function, name string, i int) {
	paramRecords[fname(f)+"|"+name] = paramEntry{i, f.Params[i].Type().String()}
}

// writeParamRecords merges the successful by-name look-ups of this run into the file named by
// CIRCL_PARAMTABLE_OUT (maintenance aid: regenerates paramtable.json on the reference tree).
func writeParamRecords() {
	out := os.Getenv("CIRCL_PARAMTABLE_OUT")
	if out == "" || len(paramRecords) == 0 {
		return
	}
	all := map[string]paramEntry{}
	if b, err := os.ReadFile(out); err == nil {
		_ = json.Unmarshal(b, &all)
	}
	for k, v := range paramRecords {
		all[k] = v
	}
	b, _ := json.MarshalIndent(all, "", " ")
	_ = os.WriteFile(out, b, 0o644)
}

// currentParamName maps a parameter name used by a rule to the name the parameter has now.
func currentParamName(f *ssa.Function, name string) string {
	if i := paramIdx(f, name); i >= 0 {
		return f.Params[i].Name()
	}
	return name
}

// GuardSpec describes one "no acceptance unless the check passed" rule.
type GuardSpec struct {
	Assumes    []Assume
	BinAssumes []BinAssume
	ValAssumes []ValAssume
	Args       map[string]lat // parameter name -> abstract value
	Success    *successSpec
	NoInline   []string
	Through    ssa.Instruction // only exits reachable from this instruction of the function count
	ThroughBin bool            // restrict to exits reachable from the (single) matched BinAssume comparison
	// ArgsMayExclude: the abstract arguments alone may already exclude acceptance (the baseline run
	// that guards against vacuity is then made without them)
	ArgsMayExclude bool
	Depth          int
}

// guard decides a GUARD rule on f and records one obligation.
func (c *Ctx) guard(p *Program, rule, what string, f *ssa.Function, g GuardSpec) bool {
	construct := what
	if f == nil {
		c.undecided(rule, construct, "anchor function does not resolve in the loaded program", "")
		return false
	}
	construct = fname(f) + ": " + what
	succ := succAuto(f)
	if g.Success != nil {
		succ = *g.Success
	}
	mk := func(withAssumes bool) *GuardQuery {
		q := &GuardQuery{P: p, Root: f, MaxDepth: g.Depth, NoInline: map[string]bool{}, ThroughSite: g.Through}
		for _, n := range g.NoInline {
			q.NoInline[n] = true
		}
		if withAssumes {
			q.Assumes = g.Assumes
			q.BinAssumes = g.BinAssumes
			q.ValAssumes = g.ValAssumes
			if len(g.Args) > 0 {
				q.Args = make([]lat, len(f.Params))
				for i := range q.Args {
					q.Args[i] = latTop
				}
				for n, v := range g.Args {
					i := paramIdx(f, n)
					if i < 0 {
						return nil
					}
					q.Args[i] = v
				}
			}
		}
		return q
	}
	if g.ThroughBin && g.Through == nil && len(g.BinAssumes) == 1 {
		for _, b := range f.Blocks {
			for _, in := range b.Instrs {
				if bo, ok := in.(*ssa.BinOp); ok && g.BinAssumes[0].Match(bo, f) {
					g.Through = bo
				}
			}
		}
	}
	qb := mk(false)
	if len(g.Assumes)+len(g.BinAssumes)+len(g.ValAssumes) > 0 && len(g.Args) > 0 && !g.ArgsMayExclude {
		// the abstract arguments alone must not already exclude acceptance
		qb = mk(true)
		if qb != nil {
			qb.Assumes, qb.BinAssumes, qb.ValAssumes = nil, nil, nil
		}
	}
	if qb == nil {
		c.undecided(rule, construct, "named parameter does not exist", p.fnPos(f))
		return false
	}
	base := runGuard(qb)
	c.count("guard_contexts", base.Visited)
	okBase := false
	for _, r := range base.Returns {
		if succ.may(r.Vals) {
			okBase = true
		}
	}
	if !okBase {
		c.undecided(rule, construct, "function has no accepting exit ("+succ.desc+") even without assumptions: rule would be vacuous", p.fnPos(f))
		return false
	}
	q := mk(true)
	if q == nil {
		c.undecided(rule, construct, "named parameter does not exist", p.fnPos(f))
		return false
	}
	res := runGuard(q)
	c.count("guard_contexts", res.Visited)
	var missing []string
	var sites []string
	for _, a := range g.Assumes {
		if len(res.Sites[a.Name]) == 0 {
			missing = append(missing, a.Name)
		}
		sites = append(sites, res.Sites[a.Name]...)
	}
	seenBA := map[string]bool{}
	for _, a := range g.BinAssumes {
		if seenBA[a.Name] {
			continue
		}
		seenBA[a.Name] = true
		if len(res.Sites[a.Name]) == 0 {
			missing = append(missing, a.Name)
		}
		sites = append(sites, res.Sites[a.Name]...)
	}
	for _, a := range g.ValAssumes {
		if len(res.Sites[a.Name]) == 0 {
			missing = append(missing, a.Name)
		}
		sites = append(sites, res.Sites[a.Name]...)
	}
	c.count("guard_sites", len(sites))
	var accepting []string
	for _, r := range res.Returns {
		if succ.may(r.Vals) {
			accepting = append(accepting, fmt.Sprintf("%s%v", p.pos(r.Instr.Pos()), r.Vals))
		}
	}
	sort.Strings(accepting)
	if len(accepting) > 0 {
		w := fmt.Sprintf("accepting exit (%s) reachable with the check failing: %s", succ.desc, strings.Join(accepting, ", "))
		if len(missing) > 0 {
			w += "; no call site of " + strings.Join(missing, ",") + " on any path"
		}
		pos := p.fnPos(f)
		c.bad(rule, construct, w, pos)
		return false
	}
	if len(missing) > 0 && len(g.Args) == 0 {
		c.undecided(rule, construct, "check not found: "+strings.Join(missing, ","), p.fnPos(f))
		return false
	}
	w := fmt.Sprintf("no accepting exit (%s) of %d exits; check sites: %s", succ.desc, len(res.Returns), strings.Join(sites, " "))
	if len(g.Args) > 0 {
		var as []string
		for n, v := range g.Args {
			as = append(as, n+"="+v.String())
		}
		sort.Strings(as)
		w += "; abstract args " + strings.Join(as, ",")
	}
	c.ok(rule, construct, w, p.fnPos(f))
	return true
}

// lenReject: inputs whose named slice/string parameter is over-long (ω) and,
// if short is set, empty, never reach an accepting exit.
func (c *Ctx) lenReject(p *Program, rule string, f *ssa.Function, param string, short bool) {
	c.guard(p, rule, "over-long "+param+" rejected", f, GuardSpec{Args: map[string]lat{param: latBigSlice}})
	if short {
		c.guard(p, rule, "empty "+param+" rejected", f, GuardSpec{Args: map[string]lat{param: latNil}})
	}
}

// implementers lists named types T of circl whose T or *T implements iface.
func (p *Program) implementers(iface *types.Interface) []*types.Named {
	var out []*types.Named
	for _, pk := range p.Circl {
		sc := pk.Types.Scope()
		for _, n := range sc.Names() {
			tn, ok := sc.Lookup(n).(*types.TypeName)
			if !ok || tn.IsAlias() {
				continue
			}
			named, ok := tn.Type().(*types.Named)
			if !ok || named.TypeParams().Len() > 0 {
				continue
			}
			if _, isI := named.Underlying().(*types.Interface); isI {
				continue
			}
			if types.Implements(named, iface) || types.Implements(types.NewPointer(named), iface) {
				out = append(out, named)
			}
		}
	}
	sort.Slice(out, func(i, j int) bool { return out[i].String() < out[j].String() })
	return out
}

func (p *Program) iface(pkg, name string) *types.Interface {
	pk := p.ByPath[circlPath+"/"+pkg]
	if pk == nil {
		pk = p.ByPath[pkg]
	}
	if pk == nil {
		return nil
	}
	o := pk.Types.Scope().Lookup(name)
	if o == nil {
		return nil
	}
	i, _ := o.Type().Underlying().(*types.Interface)
	return i
}

// method finds the declared method of a named type, or the (synthetic wrapper of the) promoted one.
func (p *Program) method(n *types.Named, name string) *ssa.Function {
	for i := 0; i < n.NumMethods(); i++ {
		if m := n.Method(i); m.Name() == name {
			return p.SSA.FuncValue(m.Origin())
		}
	}
	for _, t := range []types.Type{n, types.NewPointer(n)} {
		ms := p.SSA.MethodSets.MethodSet(t)
		for i := 0; i < ms.Len(); i++ {
			if sel := ms.At(i); sel.Obj().Name() == name {
				if f := p.SSA.MethodValue(sel); f != nil {
					return f
				}
			}
		}
	}
	return nil
}

func relPkg(n *types.Named) string {
	if n.Obj().Pkg() == nil {
		return ""
	}
	return strings.TrimPrefix(n.Obj().Pkg().Path(), circlPath+"/")
}

func constantString(s string) constant.Value { return constant.MakeString(s) }

// depSink selects the value(s) whose dependences a DEP rule inspects.
type depSink struct {
	desc string
	get  func(p *Program, d *depFn) (bits, int) // labels, number of sink sites found
}

// sinkCallArg: argument idx (receiver-first for methods; for interface calls index 0 is the receiver)
// of every call in the function to one of the named callees.
func sinkCallArg(idx int, callees ...string) depSink {
	return depSink{
		desc: fmt.Sprintf("argument %d of %s", idx, strings.Join(callees, "|")),
		get: func(p *Program, d *depFn) (bits, int) {
			var out bits
			n := 0
			for _, cs := range p.callSites(d.f, callees...) {
				c := cs.Common()
				var args []ssa.Value
				if c.IsInvoke() {
					args = append(args, c.Value)
				}
				args = append(args, c.Args...)
				if idx < len(args) {
					out.union(d.fullDep(args[idx]))
					n++
				}
			}
			return out, n
		},
	}
}

// sinkResult: the values returned by the function (all results).
func sinkResult() depSink {
	return depSink{desc: "returned values", get: func(p *Program, d *depFn) (bits, int) {
		var out bits
		n := 0
		for _, b := range d.f.Blocks {
			for _, in := range b.Instrs {
				if r, ok := in.(*ssa.Return); ok {
					for _, v := range r.Results {
						out.union(d.fullDep(v))
					}
					n++
				}
			}
		}
		return out, n
	}}
}

// sinkVerdict: what a small predicate's answer depends on: the returned values and every branch
// condition of the function (the engine tracks data dependence only; in a predicate each branch decides
// which return is taken).
func sinkVerdict() depSink {
	return depSink{desc: "returned values and branch conditions", get: func(p *Program, d *depFn) (bits, int) {
		var out bits
		n := 0
		for _, b := range d.f.Blocks {
			for _, in := range b.Instrs {
				switch x := in.(type) {
				case *ssa.Return:
					for _, v := range x.Results {
						out.union(d.fullDep(v))
					}
					n++
				case *ssa.If:
					out.union(d.fullDep(x.Cond))
				}
			}
		}
		return out, n
	}}
}

// sinkParamPointee: the memory reachable from a (pointer/slice) parameter after the call.
func sinkParamPointee(name string) depSink {
	return depSink{desc: "memory written through parameter " + name, get: func(p *Program, d *depFn) (bits, int) {
		i := paramIdx(d.f, name)
		if i < 0 {
			return nil, 0
		}
		var out bits
		r := d.reach(*d.ptsOf(d.f.Params[i]))
		r.each(func(o int) { out.union(*d.objT[o]) })
		return out, 1
	}}
}

// depRule: every listed source label must reach the sink.
func (c *Ctx) depRule(p *Program, rule, what string, f *ssa.Function, sink depSink, sources ...string) bool {
	construct := what
	if f == nil {
		c.undecided(rule, construct, "anchor function does not resolve in the loaded program", "")
		return false
	}
	construct = fname(f) + ": " + what
	d := p.Dep().analyse(f)
	labels, n := sink.get(p, d)
	c.count("dep_functions", 1)
	if n == 0 {
		c.undecided(rule, construct, "sink not found: "+sink.desc, p.fnPos(f))
		return false
	}
	var missing []string
	for _, s := range sources {
		if strings.HasPrefix(s, "param:") {
			if paramIdx(f, strings.TrimPrefix(s, "param:")) < 0 {
				c.undecided(rule, construct, "source "+s+" does not exist", p.fnPos(f))
				return false
			}
			s = "param:" + currentParamName(f, strings.TrimPrefix(s, "param:"))
		}
		if !d.hasLabel(labels, s) {
			missing = append(missing, s)
		}
	}
	if len(missing) > 0 {
		c.bad(rule, construct, fmt.Sprintf("%s does not depend on %s", sink.desc, strings.Join(missing, ", ")), p.fnPos(f))
		return false
	}
	c.ok(rule, construct, fmt.Sprintf("%s (%d site(s)) depends on %s", sink.desc, n, strings.Join(sources, ", ")), p.fnPos(f))
	return true
}

// guardEachSite: for every call site in f of one of the named callees, assuming that
// site (alone) yields failVal, no accepting exit is reachable from the site.
func (c *Ctx) guardEachSite(p *Program, rule, what string, f *ssa.Function, resultIdx int, failVal lat, callees ...string) {
	if f == nil {
		c.undecided(rule, what, "anchor function does not resolve in the loaded program", "")
		return
	}
	sites := p.callSites(f, callees...)
	if len(sites) == 0 {
		c.bad(rule, fname(f)+": "+what, "no call to "+strings.Join(callees, "|")+" in the function", p.fnPos(f))
		return
	}
	for i, s := range sites {
		site := s
		a := Assume{Name: fmt.Sprintf("%s#%d", strings.Join(callees, "|"), i), Result: resultIdx, Val: failVal,
			Match: func(x ssa.CallInstruction, _ string, _ *ssa.Function) bool { return x == site }}
		c.guard(p, rule, fmt.Sprintf("%s [site %d of %s]", what, i+1, strings.Join(callees, "|")), f, GuardSpec{Assumes: []Assume{a}, Through: site})
	}
}

// evalAcceptRule decides by constant propagation whether f, on the given abstract
// arguments, must accept (every reachable exit is an accepting one and one exists)
// or must reject (no accepting exit is reachable).
func (c *Ctx) evalAcceptRule(p *Program, rule, what string, f *ssa.Function, args map[string]lat, vas []ValAssume, wantAccept bool) {
	if f == nil {
		c.undecided(rule, what, "anchor function does not resolve", "")
		return
	}
	c.evalAcceptRuleSpec(p, rule, what, f, args, nil, vas, wantAccept, succAuto(f))
}

func (c *Ctx) evalAcceptRuleSpec(p *Program, rule, what string, f *ssa.Function, args map[string]lat, as []Assume, vas []ValAssume, wantAccept bool, succ successSpec) {
	if f == nil {
		c.undecided(rule, what, "anchor function does not resolve", "")
		return
	}
	construct := fname(f) + ": " + what
	q := &GuardQuery{P: p, Root: f, Assumes: as, ValAssumes: vas}
	q.Args = make([]lat, len(f.Params))
	for i := range q.Args {
		q.Args[i] = latTop
	}
	for n, v := range args {
		i := paramIdx(f, n)
		if i < 0 {
			c.undecided(rule, construct, "parameter "+n+" does not exist", p.fnPos(f))
			return
		}
		q.Args[i] = v
	}
	r := runGuard(q)
	var acc, rej []string
	for _, ri := range r.Returns {
		if succ.may(ri.Vals) {
			acc = append(acc, fmt.Sprintf("%s%v", p.pos(ri.Instr.Pos()), ri.Vals))
		} else {
			rej = append(rej, p.pos(ri.Instr.Pos()))
		}
	}
	if wantAccept {
		for _, va := range vas {
			if len(r.Sites[va.Name]) == 0 {
				c.undecided(rule, construct, "value "+va.Name+" not found in the function", p.fnPos(f))
				return
			}
		}
	}
	switch {
	case wantAccept && len(acc) > 0 && len(rej) == 0:
		c.ok(rule, construct, "every reachable exit accepts: "+strings.Join(acc, " "), p.fnPos(f))
	case wantAccept:
		c.bad(rule, construct, fmt.Sprintf("must accept, but rejecting exits %v are reachable (accepting: %v)", rej, acc), p.fnPos(f))
	case !wantAccept && len(acc) == 0:
		c.ok(rule, construct, fmt.Sprintf("no accepting exit reachable (%d rejecting exit(s), or panics)", len(rej)), p.fnPos(f))
	default:
		c.bad(rule, construct, "must reject, but an accepting exit is reachable: "+strings.Join(acc, " "), p.fnPos(f))
	}
}

// callCountRule: the function contains exactly the given number of calls to each callee.
func (c *Ctx) callCountRule(p *Program, rule, what string, f *ssa.Function, want map[string]int) {
	if f == nil {
		c.undecided(rule, what, "anchor function does not resolve", "")
		return
	}
	var bad []string
	for callee, n := range want {
		if got := len(p.callSites(f, callee)); got != n {
			bad = append(bad, fmt.Sprintf("%d calls to %s, specification has %d", got, callee, n))
		}
	}
	sort.Strings(bad)
	if len(bad) > 0 {
		c.bad(rule, fname(f)+": "+what, strings.Join(bad, "; "), p.fnPos(f))
		return
	}
	c.ok(rule, fname(f)+": "+what, "call counts match", p.fnPos(f))
}

// guardConstObserve (C07): the bitmask stored before the candidate loop is 0x01 exactly on the P-521 branch.
func (c *Ctx) guardConstObserve(p *Program, rule, what string, f *ssa.Function) {
	if f == nil {
		c.undecided(rule, what, "anchor function does not resolve", "")
		return
	}
	// find "bytes[0] &= bitmask": a Store whose value is (load & phi(255, 1)), phi selected by a comparison with ecdh.P521()
	found := false
	for _, b := range f.Blocks {
		for _, in := range b.Instrs {
			bo, ok := in.(*ssa.BinOp)
			if !ok || bo.Op != token.AND {
				continue
			}
			for _, o := range []ssa.Value{bo.X, bo.Y} {
				if ph, ok := o.(*ssa.Phi); ok {
					d := descVal(ph)
					if d == "phi(1|255)" {
						// which edge carries 1: the one from the block guarded by == P521()
						for i, e := range ph.Edges {
							if k, ok := e.(*ssa.Const); ok && k.Value != nil && k.Value.ExactString() == "1" {
								pred := ph.Block().Preds[i]
								// pred must be the true-successor of an If comparing with call ecdh.P521
								if len(pred.Preds) == 1 {
									if ifi, ok := pred.Preds[0].Instrs[len(pred.Preds[0].Instrs)-1].(*ssa.If); ok && pred.Preds[0].Succs[0] == pred {
										if strings.Contains(descVal(ifi.Cond), "crypto/ecdh.P521") {
											found = true
										}
									}
								}
							}
						}
					}
				}
			}
		}
	}
	if found {
		c.ok(rule, fname(f)+": "+what, "mask = phi(0xFF, 0x01) with 0x01 on the Curve == ecdh.P521() branch", p.fnPos(f))
	} else {
		c.bad(rule, fname(f)+": "+what, "bitmask selection not found in the specified form", p.fnPos(f))
	}
}

// notReached: under the assumptions, no call to any of the named callees is executable
// in f or in the circl functions it calls.
func (c *Ctx) notReached(p *Program, rule, what string, f *ssa.Function, assumes []Assume, callees ...string) {
	if f == nil {
		c.undecided(rule, what, "anchor function does not resolve", "")
		return
	}
	set := map[string]bool{}
	for _, n := range callees {
		set[normName(n)] = true
	}
	q := &GuardQuery{P: p, Root: f, Assumes: assumes}
	var hits []string
	q.Observe = func(in *ssa.Function, site ssa.CallInstruction, callee string, _ func(ssa.Value) lat) {
		if set[normName(callee)] {
			hits = append(hits, p.pos(site.Pos())+" in "+fname(in))
		}
	}
	r := runGuard(q)
	for _, a := range assumes {
		if len(r.Sites[a.Name]) == 0 {
			c.undecided(rule, fname(f)+": "+what, "assumed call "+a.Name+" not found", p.fnPos(f))
			return
		}
	}
	if len(hits) > 0 {
		sort.Strings(hits)
		c.bad(rule, fname(f)+": "+what, "reachable: "+strings.Join(hits, ", "), p.fnPos(f))
		return
	}
	c.ok(rule, fname(f)+": "+what, "no call to "+strings.Join(callees, "|")+" is executable under the assumption", p.fnPos(f))
}

// reachCountRule: the number of distinct call sites of each callee that are executable from f
// (through circl callees) equals the specification's.
func (c *Ctx) reachCountRule(p *Program, rule, what string, f *ssa.Function, want map[string]int) {
	if f == nil {
		c.undecided(rule, what, "anchor function does not resolve", "")
		return
	}
	got := map[string]map[string]bool{}
	q := &GuardQuery{P: p, Root: f}
	q.Observe = func(in *ssa.Function, site ssa.CallInstruction, callee string, _ func(ssa.Value) lat) {
		for w := range want {
			if normName(w) == normName(callee) {
				if got[w] == nil {
					got[w] = map[string]bool{}
				}
				got[w][fname(in)+"@"+p.pos(site.Pos())] = true
			}
		}
	}
	runGuard(q)
	var bad []string
	for w, n := range want {
		if len(got[w]) != n {
			bad = append(bad, fmt.Sprintf("%d reachable call site(s) of %s, specification has %d", len(got[w]), w, n))
		}
	}
	sort.Strings(bad)
	if len(bad) > 0 {
		c.bad(rule, fname(f)+": "+what, strings.Join(bad, "; "), p.fnPos(f))
		return
	}
	c.ok(rule, fname(f)+": "+what, "reachable call-site counts match", p.fnPos(f))
}

// loopPassesThrough: under the given abstract arguments, every executable cycle of f's CFG
// that contains a block calling `anchor` ... more simply: every executable cycle through any
// loop header passes through a call selected by via. Used for "each element of a batch is
// accumulated / checked": a `continue` that skips the accumulation creates a cycle avoiding it.
func (c *Ctx) loopPassesThrough(p *Program, rule, what string, f *ssa.Function, args map[string]lat, viaDesc string, via func(ssa.Instruction) bool) {
	if f == nil {
		c.undecided(rule, what, "anchor function does not resolve", "")
		return
	}
	construct := fname(f) + ": " + what
	q := &GuardQuery{P: p, Root: f}
	if len(args) > 0 {
		q.Args = make([]lat, len(f.Params))
		for i := range q.Args {
			q.Args[i] = latTop
		}
		for n, v := range args {
			i := paramIdx(f, n)
			if i < 0 {
				c.undecided(rule, construct, "parameter "+n+" does not exist", p.fnPos(f))
				return
			}
			q.Args[i] = v
		}
	}
	r := runGuard(q)
	viaBlocks := map[int]bool{}
	for _, b := range f.Blocks {
		for _, in := range b.Instrs {
			if via(in) {
				viaBlocks[b.Index] = true
			}
		}
	}
	if len(viaBlocks) == 0 {
		c.bad(rule, construct, "no instruction ["+viaDesc+"] found", p.fnPos(f))
		return
	}
	// the via instruction must itself lie on an executable cycle (it is inside the loop)
	succ := map[int][]int{}
	for ed := range r.RootExec {
		succ[ed[0]] = append(succ[ed[0]], ed[1])
	}
	reach := func(from int, avoid map[int]bool) map[int]bool {
		seen := map[int]bool{}
		stack := []int{}
		for _, s := range succ[from] {
			if !avoid[s] && !seen[s] {
				seen[s] = true
				stack = append(stack, s)
			}
		}
		for len(stack) > 0 {
			n := stack[len(stack)-1]
			stack = stack[:len(stack)-1]
			for _, s := range succ[n] {
				if !avoid[s] && !seen[s] {
					seen[s] = true
					stack = append(stack, s)
				}
			}
		}
		return seen
	}
	onCycle := false
	for vb := range viaBlocks {
		if reach(vb, nil)[vb] {
			onCycle = true
		}
	}
	if !onCycle {
		c.bad(rule, construct, "["+viaDesc+"] is not inside an executable loop", p.fnPos(f))
		return
	}
	// cycles avoiding all via blocks: only cycles of the loop(s) that contain a via block matter,
	// i.e. blocks from which a via block is reachable and which are reachable from a via block
	var bad []string
	for _, b := range f.Blocks {
		if viaBlocks[b.Index] {
			continue
		}
		inLoop := false
		for vb := range viaBlocks {
			if reach(vb, nil)[b.Index] && reach(b.Index, nil)[vb] {
				inLoop = true
			}
		}
		if inLoop && reach(b.Index, viaBlocks)[b.Index] {
			bad = append(bad, fmt.Sprintf("block %d (%s)", b.Index, p.pos(firstPos(b))))
		}
	}
	if len(bad) > 0 {
		sort.Strings(bad)
		c.bad(rule, construct, "an iteration can complete without ["+viaDesc+"]: cycle through "+strings.Join(bad, ", "), p.fnPos(f))
		return
	}
	c.ok(rule, construct, "every executable loop iteration passes through ["+viaDesc+"]", p.fnPos(f))
}

func firstPos(b *ssa.BasicBlock) token.Pos {
	for _, in := range b.Instrs {
		if in.Pos().IsValid() {
			return in.Pos()
		}
	}
	return token.NoPos
}

func sprintf(format string, a ...interface{}) string { return fmt.Sprintf(format, a...) }

// binDesc builds a BinAssume matching comparisons in fn whose rendering "<desc X> <op> <desc Y>"
// matches the regular expression.
func binDesc(fn *ssa.Function, name, re string, val lat) BinAssume {
	rx := regexp.MustCompile("^(?:" + re + ")$")
	return BinAssume{Name: name, Val: val, Match: func(b *ssa.BinOp, in *ssa.Function) bool {
		if in != fn || !isCmp(b.Op) {
			return false
		}
		return rx.MatchString(descVal(b.X) + " " + b.Op.String() + " " + descVal(b.Y))
	}}
}

// reachRule: under the assumptions, a call to callee inside f itself is (wantReached) / is not
// (!wantReached) executable.
func (c *Ctx) reachRule(p *Program, rule, what string, f *ssa.Function, args map[string]lat, as []Assume, vas []ValAssume, callee string, wantReached bool) {
	if f == nil {
		c.undecided(rule, what, "anchor function does not resolve", "")
		return
	}
	construct := fname(f) + ": " + what
	q := &GuardQuery{P: p, Root: f, Assumes: as, ValAssumes: vas, MaxDepth: 1}
	if len(args) > 0 {
		q.Args = make([]lat, len(f.Params))
		for i := range q.Args {
			q.Args[i] = latTop
		}
		for n, v := range args {
			i := paramIdx(f, n)
			if i < 0 {
				c.undecided(rule, construct, "parameter "+n+" does not exist", p.fnPos(f))
				return
			}
			q.Args[i] = v
		}
	}
	var hits []string
	q.Observe = func(in *ssa.Function, site ssa.CallInstruction, name string, _ func(ssa.Value) lat) {
		if in == f && normName(name) == normName(callee) {
			hits = append(hits, p.pos(site.Pos()))
		}
	}
	r := runGuard(q)
	for _, va := range vas {
		if len(r.Sites[va.Name]) == 0 && !strings.HasPrefix(va.Name, "opt:") {
			c.undecided(rule, construct, "value "+va.Name+" not found in the function", p.fnPos(f))
			return
		}
	}
	sort.Strings(hits)
	switch {
	case wantReached && len(hits) == 0:
		c.bad(rule, construct, "no call to "+callee+" is executable under the assumptions", p.fnPos(f))
	case !wantReached && len(hits) > 0:
		c.bad(rule, construct, callee+" is executable under the assumptions at "+strings.Join(hits, ", "), p.fnPos(f))
	default:
		c.ok(rule, construct, fmt.Sprintf("%d executable call(s) to %s", len(hits), callee), p.fnPos(f))
	}
}

// reachCountUnder: under the abstract arguments and value assumptions, exactly want call sites of
// callee inside f are executable.
func (c *Ctx) reachCountUnder(p *Program, rule, what string, f *ssa.Function, args map[string]lat, vas []ValAssume, callee string, want int) {
	if f == nil {
		c.undecided(rule, what, "anchor function does not resolve", "")
		return
	}
	construct := fname(f) + ": " + what
	q := &GuardQuery{P: p, Root: f, ValAssumes: vas, MaxDepth: 1}
	if len(args) > 0 {
		q.Args = make([]lat, len(f.Params))
		for i := range q.Args {
			q.Args[i] = latTop
		}
		for n, v := range args {
			i := paramIdx(f, n)
			if i < 0 {
				c.undecided(rule, construct, "parameter "+n+" does not exist", p.fnPos(f))
				return
			}
			q.Args[i] = v
		}
	}
	hits := map[string]bool{}
	q.Observe = func(in *ssa.Function, site ssa.CallInstruction, name string, _ func(ssa.Value) lat) {
		if in == f && normName(name) == normName(callee) {
			hits[p.pos(site.Pos())] = true
		}
	}
	r := runGuard(q)
	for _, va := range vas {
		if len(r.Sites[va.Name]) == 0 {
			c.undecided(rule, construct, "value "+va.Name+" not found in the function", p.fnPos(f))
			return
		}
	}
	if len(hits) != want {
		c.bad(rule, construct, fmt.Sprintf("%d executable call site(s) of %s under the assumptions, specification has %d", len(hits), callee, want), p.fnPos(f))
		return
	}
	c.ok(rule, construct, fmt.Sprintf("%d executable call site(s) of %s", len(hits), callee), p.fnPos(f))
}

// storeReachUnder: under the value assumptions, a store selected by isStore inside f is (wantReached) /
// is not executable.
func (c *Ctx) storeReachUnder(p *Program, rule, what string, f *ssa.Function, vas []ValAssume, storeDesc string, isStore func(*ssa.Store) bool, wantReached bool) {
	if f == nil {
		c.undecided(rule, what, "anchor function does not resolve", "")
		return
	}
	construct := fname(f) + ": " + what
	q := &GuardQuery{P: p, Root: f, ValAssumes: vas, MaxDepth: 1}
	var hits []string
	q.ObserveStore = func(in *ssa.Function, st *ssa.Store, _ func(ssa.Value) lat) {
		if in == f && isStore(st) {
			hits = append(hits, p.pos(st.Pos()))
		}
	}
	r := runGuard(q)
	for _, va := range vas {
		if len(r.Sites[va.Name]) == 0 {
			c.undecided(rule, construct, "value "+va.Name+" not found in the function", p.fnPos(f))
			return
		}
	}
	hits = uniq(hits)
	sort.Strings(hits)
	switch {
	case wantReached && len(hits) == 0:
		c.bad(rule, construct, "no "+storeDesc+" is executable under the assumptions", p.fnPos(f))
	case !wantReached && len(hits) > 0:
		c.bad(rule, construct, storeDesc+" is executable under the assumptions at "+strings.Join(hits, ", "), p.fnPos(f))
	default:
		c.ok(rule, construct, fmt.Sprintf("%d executable %s", len(hits), storeDesc), p.fnPos(f))
	}
}

// fieldStoreRule: every store in f into a struct field named field (of an object f builds or updates)
// stores a value whose provenance descriptor matches want.
func (c *Ctx) fieldStoreRule(p *Program, rule, what string, f *ssa.Function, field, want string) {
	if f == nil {
		c.undecided(rule, what, "anchor function does not resolve", "")
		return
	}
	construct := fname(f) + ": " + what
	rx := regexp.MustCompile("^(?:" + want + ")$")
	n := 0
	var bad []string
	for _, b := range f.Blocks {
		for _, in := range b.Instrs {
			st, ok := in.(*ssa.Store)
			if !ok {
				continue
			}
			fa, ok := st.Addr.(*ssa.FieldAddr)
			if !ok || fieldName(fa) != field {
				continue
			}
			n++
			if d := descVal(st.Val); !rx.MatchString(d) {
				bad = append(bad, fmt.Sprintf("%s: field %s receives %s", p.pos(st.Pos()), field, d))
			}
		}
	}
	switch {
	case n == 0:
		c.undecided(rule, construct, "no store into a field named "+field+" found", p.fnPos(f))
	case len(bad) > 0:
		sort.Strings(bad)
		c.bad(rule, construct, strings.Join(bad, "; ")+"; specification: "+want, p.fnPos(f))
	default:
		c.ok(rule, construct, fmt.Sprintf("%d store(s) into %s, each of a value matching %s", n, field, want), p.fnPos(f))
	}
}

// noDataOnError: every return of f (results: data, error) that may carry an error returns nil data.
func (c *Ctx) noDataOnError(p *Program, rule string, f *ssa.Function) {
	if f == nil {
		c.undecided(rule, "an exit that may report an error returns no data", "anchor function does not resolve", "")
		return
	}
	var bad []string
	nret := 0
	for _, b := range f.Blocks {
		ret, ok := b.Instrs[len(b.Instrs)-1].(*ssa.Return)
		if !ok || len(ret.Results) != 2 {
			continue
		}
		nret++
		isNil := func(v ssa.Value) bool {
			k, ok := v.(*ssa.Const)
			return ok && k.Value == nil
		}
		if !isNil(ret.Results[1]) && !isNil(ret.Results[0]) {
			bad = append(bad, fmt.Sprintf("%s returns %s together with a possibly non-nil error", p.pos(ret.Pos()), descVal(ret.Results[0])))
		}
	}
	construct := fname(f) + ": an exit that may report an error returns no data"
	switch {
	case nret == 0:
		c.undecided(rule, construct, "no return with two results found", p.fnPos(f))
	case len(bad) > 0:
		sort.Strings(bad)
		c.bad(rule, construct, strings.Join(bad, "; "), p.fnPos(f))
	default:
		c.ok(rule, construct, fmt.Sprintf("%d exits: each returns either (data, nil) or (nil, error)", nret), p.fnPos(f))
	}
}

// argNotConstUnder: under the value assumptions, some call of callee (in f or one level down) is executable
// and its argument argIdx is not a constant there - the caller's datum reaches the callee.
func (c *Ctx) argNotConstUnder(p *Program, rule, what string, f *ssa.Function, vas []ValAssume, callee string, argIdx int) {
	if f == nil {
		c.undecided(rule, what, "anchor function does not resolve", "")
		return
	}
	construct := fname(f) + ": " + what
	q := &GuardQuery{P: p, Root: f, ValAssumes: vas, MaxDepth: 1}
	var consts, tops []string
	q.Observe = func(in *ssa.Function, site ssa.CallInstruction, name string, get func(ssa.Value) lat) {
		if normName(name) != normName(callee) || argIdx >= len(site.Common().Args) {
			return
		}
		l := get(site.Common().Args[argIdx])
		if l.k == kConst {
			consts = append(consts, fmt.Sprintf("%s (%s)", p.pos(site.Pos()), l.c.ExactString()))
		} else {
			tops = append(tops, p.pos(site.Pos()))
		}
	}
	r := runGuard(q)
	for _, va := range vas {
		if len(r.Sites[va.Name]) == 0 {
			c.undecided(rule, construct, "value "+va.Name+" not found in the function", p.fnPos(f))
			return
		}
	}
	consts, tops = uniq(consts), uniq(tops)
	switch {
	case len(consts)+len(tops) == 0:
		c.bad(rule, construct, "no call of "+callee+" is executable under the assumptions", p.fnPos(f))
	case len(consts) > 0:
		c.bad(rule, construct, fmt.Sprintf("argument %d of %s is the constant %s: what the caller supplied is dropped", argIdx, callee, strings.Join(consts, ", ")), p.fnPos(f))
	default:
		c.ok(rule, construct, fmt.Sprintf("argument %d of %s is not a constant at %s", argIdx, callee, strings.Join(tops, ", ")), p.fnPos(f))
	}
}

// mayAccept: with the given abstract arguments some exit of f reports success (the dual of a must-reject
// boundary rule: the largest legal value is not refused).
func (c *Ctx) mayAccept(p *Program, rule, what string, f *ssa.Function, args map[string]lat) {
	if f == nil {
		c.undecided(rule, what, "anchor function does not resolve", "")
		return
	}
	construct := fname(f) + ": " + what
	q := &GuardQuery{P: p, Root: f, MaxDepth: 1}
	q.Args = make([]lat, len(f.Params))
	for i := range q.Args {
		q.Args[i] = latTop
	}
	for n, v := range args {
		i := paramIdx(f, n)
		if i < 0 {
			c.undecided(rule, construct, "parameter "+n+" does not exist", p.fnPos(f))
			return
		}
		q.Args[i] = v
	}
	r := runGuard(q)
	succ := succAuto(f)
	for _, ri := range r.Returns {
		if ri.Instr.Parent() == f && succ.may(ri.Vals) {
			c.ok(rule, construct, "a success exit is reachable at "+p.pos(ri.Instr.Pos()), p.fnPos(f))
			return
		}
	}
	c.bad(rule, construct, "no exit reports success for these arguments: a legal value is refused", p.fnPos(f))
}

// sinkAndMask: the mask operand of every `x[i] &= mask` statement (a store of load(addr) & mask back to addr).
func sinkAndMask() depSink {
	return depSink{desc: "mask of an `&=` statement", get: func(p *Program, d *depFn) (bits, int) {
		var out bits
		n := 0
		for _, b := range d.f.Blocks {
			for _, in := range b.Instrs {
				st, ok := in.(*ssa.Store)
				if !ok {
					continue
				}
				bo, ok := st.Val.(*ssa.BinOp)
				if !ok || bo.Op != token.AND {
					continue
				}
				for i, side := range []ssa.Value{bo.X, bo.Y} {
					ld, ok := side.(*ssa.UnOp)
					if !ok || ld.Op != token.MUL || (ld.X != st.Addr && descVal(ld.X) != descVal(st.Addr)) {
						continue
					}
					out.union(d.fullDep([]ssa.Value{bo.Y, bo.X}[i]))
					n++
				}
			}
		}
		return out, n
	}}
}

func init() {
	for prop, fns := range map[string][][2]string{
		"C17": {{"tss/rsa/internal/pss", "emsaPSSEncode"}},
		"C18": {{"blindsign/blindrsa/internal/common", "emsaPSSEncode"}, {"blindsign/blindrsa/internal/common", "emsaPSSVerify"}},
	} {
		prop, fns := prop, fns
		prev := registry[prop]
		registry[prop] = func(c *Ctx) {
			prev(c)
			if p := c.Prog("amd64"); p != nil {
				c.Clauses = append(c.Clauses, prop+".pssmask: the mask that clears the leftmost bits of the PSS encoding is computed from emBits (RFC 8017 9.1.1 step 11: 8*emLen - emBits bits; a constant is right only for moduli of 8k bits)")
				for _, fn := range fns {
					c.depRule(p, prop+".pssmask", "the mask clearing the leftmost bits depends on emBits", p.Func(fn[0], "", fn[1]), sinkAndMask(), "param:emBits")
				}
			}
		}
	}
}

// mayAcceptUnder: with the given argument values and callee results, some exit of f reports success.
func (c *Ctx) mayAcceptUnder(p *Program, rule, what string, f *ssa.Function, args map[string]lat, as []Assume, vas []ValAssume) {
	if f == nil {
		c.undecided(rule, what, "anchor function does not resolve", "")
		return
	}
	construct := fname(f) + ": " + what
	q := &GuardQuery{P: p, Root: f, MaxDepth: 1, Assumes: as, ValAssumes: vas}
	q.Args = make([]lat, len(f.Params))
	for i := range q.Args {
		q.Args[i] = latTop
	}
	for n, v := range args {
		i := paramIdx(f, n)
		if i < 0 {
			c.undecided(rule, construct, "parameter "+n+" does not exist", p.fnPos(f))
			return
		}
		q.Args[i] = v
	}
	r := runGuard(q)
	for _, a := range as {
		if len(r.Sites[a.Name]) == 0 {
			c.undecided(rule, construct, "no executable call of "+a.Name+" under these arguments", p.fnPos(f))
			return
		}
	}
	for _, va := range vas {
		if len(r.Sites[va.Name]) == 0 {
			c.undecided(rule, construct, "value "+va.Name+" not found in the function", p.fnPos(f))
			return
		}
	}
	succ := succAuto(f)
	for _, ri := range r.Returns {
		if ri.Instr.Parent() == f && succ.may(ri.Vals) {
			c.ok(rule, construct, "a success exit is reachable at "+p.pos(ri.Instr.Pos()), p.fnPos(f))
			return
		}
	}
	c.bad(rule, construct, "no exit reports success under these values: a legal input is refused", p.fnPos(f))
}
