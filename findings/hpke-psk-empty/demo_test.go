package hpke_test

// Demonstration (C07): RFC 9180 section 5.1 treats a PSK input as provided when it differs from the
// default, the empty string. The library tested for nil instead, so empty but non-nil slices counted
// as provided: SetupPSK with an empty PSK and PSK id was accepted (a PSK-mode context keyed with the
// empty PSK), and base mode rejected callers passing empty slices.
//
// Copy to hpke/ and run: go test -run TestDemoPSKEmpty ./hpke/

import (
	"crypto/rand"
	"testing"

	"github.com/cloudflare/circl/hpke"
)

func TestDemoPSKEmpty(t *testing.T) {
	suite := hpke.NewSuite(hpke.KEM_X25519_HKDF_SHA256, hpke.KDF_HKDF_SHA256, hpke.AEAD_AES128GCM)
	pk, sk, err := hpke.KEM_X25519_HKDF_SHA256.Scheme().GenerateKeyPair()
	if err != nil {
		t.Fatal(err)
	}
	sender, err := suite.NewSender(pk, []byte("info"))
	if err != nil {
		t.Fatal(err)
	}
	if _, _, err := sender.SetupPSK(rand.Reader, []byte{}, []byte{}); err == nil {
		t.Error("Sender.SetupPSK accepted an empty psk and psk_id (RFC 9180: missing required PSK input)")
	}
	if _, _, err := sender.SetupPSK(rand.Reader, []byte{}, []byte("id")); err == nil {
		t.Error("Sender.SetupPSK accepted an empty psk with a psk_id (RFC 9180: inconsistent PSK inputs)")
	}
	enc, _, err := sender.SetupPSK(rand.Reader, []byte("a 32-byte pre-shared key........"), []byte("id"))
	if err != nil {
		t.Fatal(err)
	}
	receiver, err := suite.NewReceiver(sk, []byte("info"))
	if err != nil {
		t.Fatal(err)
	}
	if _, err := receiver.SetupPSK(enc, []byte{}, []byte{}); err == nil {
		t.Error("Receiver.SetupPSK accepted an empty psk and psk_id")
	}
}
