package schemes_test

// Demonstrates: Dilithium/ML-DSA verification accepts signature || junk (C02/C04).
// Place in /repo/sign/schemes and run: go test -run TestFindingSigOverlong ./sign/schemes/

import (
	"testing"

	"github.com/cloudflare/circl/sign/schemes"
)

func TestFindingSigOverlong(t *testing.T) {
	for _, name := range []string{"Dilithium2", "Dilithium3", "Dilithium5", "ML-DSA-44", "ML-DSA-65", "ML-DSA-87", "Ed25519-Dilithium2", "Ed448-Dilithium3"} {
		s := schemes.ByName(name)
		if s == nil {
			t.Fatalf("no scheme %s", name)
		}
		seed := make([]byte, s.SeedSize())
		pk, sk := s.DeriveKey(seed)
		msg := []byte("msg")
		sig := s.Sign(sk, msg, nil)
		if !s.Verify(pk, msg, sig, nil) {
			t.Fatalf("%s: honest signature rejected", name)
		}
		if s.Verify(pk, msg, append(append([]byte{}, sig...), 0x42), nil) {
			t.Errorf("%s: signature with an appended byte accepted", name)
		}
		func() {
			defer func() {
				if r := recover(); r != nil {
					t.Errorf("%s: truncated signature panics: %v", name, r)
				}
			}()
			if s.Verify(pk, msg, sig[:len(sig)-1], nil) {
				t.Errorf("%s: truncated signature accepted", name)
			}
			if s.Verify(pk, msg, nil, nil) {
				t.Errorf("%s: empty signature accepted", name)
			}
		}()
	}
}
