package schemes_test

// Demonstration (C02): the generic sign.Scheme API of Ed25519 and Ed448 accepts key encodings with
// trailing bytes (only inputs shorter than the key size were rejected), so an altered public key
// string still verifies honest signatures. Every other scheme requires the exact length.
//
// Copy to sign/schemes/ and run: go test -run TestDemoEdDSAKeyOverlong ./sign/schemes/

import (
	"testing"

	"github.com/cloudflare/circl/sign/schemes"
)

func TestDemoEdDSAKeyOverlong(t *testing.T) {
	for _, name := range []string{"Ed25519", "Ed448"} {
		s := schemes.ByName(name)
		pk, sk, err := s.GenerateKey()
		if err != nil {
			t.Fatal(err)
		}
		msg := []byte("message")
		sig := s.Sign(sk, msg, nil)
		pkb, _ := pk.MarshalBinary()
		skb, _ := sk.MarshalBinary()
		if pk2, err := s.UnmarshalBinaryPublicKey(append(append([]byte{}, pkb...), 0x42)); err == nil {
			t.Errorf("%s: public key with an appended byte accepted (Verify with it: %v)", name, s.Verify(pk2, msg, sig, nil))
		}
		if _, err := s.UnmarshalBinaryPrivateKey(append(append([]byte{}, skb...), 0x42)); err == nil {
			t.Errorf("%s: private key with an appended byte accepted", name)
		}
	}
}
