package group_test

// Demonstrates (C11): group.P256.Generator() returns an element whose coordinates ARE the shared
// *big.Int of crypto/elliptic's curve parameters. Decoding the identity into that element (or any
// in-place operation) overwrites the library-global generator: later Generator() calls return the
// identity. Place in /repo/group: go test -run TestFindingGeneratorAlias ./group/

import (
	"testing"

	"github.com/cloudflare/circl/group"
)

func TestFindingGeneratorAlias(t *testing.T) {
	g := group.P384 // use a curve no other test in this run depends on afterwards
	gen := g.Generator()
	want, _ := g.Generator().MarshalBinary()
	if err := gen.UnmarshalBinary([]byte{0x00}); err != nil { // decode the identity into it
		t.Fatal(err)
	}
	got, _ := g.Generator().MarshalBinary()
	// restore the global so that the demonstration does not poison other tests
	_ = gen.UnmarshalBinary(want)
	if string(got) != string(want) {
		t.Errorf("modifying the element returned by Generator() changed what Generator() returns afterwards")
	}
}
