package tkn

// Demonstration (C10): DecryptCCA panics with "index out of range" when the ciphertext header ends
// right after the c1 matrix, because ciphertextHeader.unmarshalBinary reads the two-byte c2/c3
// counters without checking that two bytes remain.
//
// Copy to abe/cpabe/tkn20/internal/tkn/ and run: go test -run TestDemoHeaderShort .

import "testing"

func TestDemoHeaderShort(t *testing.T) {
	pol := &Policy{}
	pBytes, err := pol.MarshalBinary()
	if err != nil {
		t.Fatal(err)
	}
	c1Bytes, err := newMatrixG2(0, 0).marshalBinary()
	if err != nil {
		t.Fatal(err)
	}
	for _, extra := range [][]byte{nil, {0}} {
		var hdr []byte
		hdr = appendLenPrefixed(hdr, pBytes)
		hdr = appendLenPrefixed(hdr, c1Bytes)
		hdr = append(hdr, extra...) // no room for the c2 counter
		var macData []byte
		macData = appendLenPrefixed(macData, hdr)
		macData = appendLenPrefixed(macData, []byte("env"))
		var ct []byte
		ct = appendLenPrefixed(ct, []byte("id"))
		ct = appendLenPrefixed(ct, macData)
		ct = appendLenPrefixed(ct, []byte("tag"))
		func() {
			defer func() {
				if r := recover(); r != nil {
					t.Errorf("DecryptCCA panicked on a truncated header (%d trailing bytes): %v", len(extra), r)
				}
			}()
			if _, err := DecryptCCA(ct, &AttributesKey{}); err == nil {
				t.Errorf("truncated header accepted")
			}
		}()
		// the same after one complete (empty) c2 section: the c3 counter is missing
		hdr = hdr[:len(hdr)-len(extra)]
		hdr = append(hdr, 0, 0)
		hdr = append(hdr, extra...)
		h := &ciphertextHeader{}
		func() {
			defer func() {
				if r := recover(); r != nil {
					t.Errorf("unmarshalBinary panicked on a header without c3 counter: %v", r)
				}
			}()
			if err := h.unmarshalBinary(hdr); err == nil {
				t.Errorf("header without c3 counter accepted")
			}
		}()
	}
}
