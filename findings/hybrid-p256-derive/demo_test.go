package hybrid_test

// Demonstrates (C01): P256Kyber768Draft00.DeriveKeyPair is not a function of the seed:
// cScheme.DeriveKeyPair passes a SHAKE reader to ecdh.Curve.GenerateKey, which first calls
// randutil.MaybeReadByte (reads one byte from the reader with probability 1/2).
// Place in /repo/kem/hybrid: go test -run TestFindingDeriveDeterministic ./kem/hybrid/

import (
	"bytes"
	"testing"

	"github.com/cloudflare/circl/kem/hybrid"
)

func TestFindingDeriveDeterministic(t *testing.T) {
	s := hybrid.P256Kyber768Draft00()
	seed := make([]byte, s.SeedSize())
	pk0, _ := s.DeriveKeyPair(seed)
	b0, _ := pk0.MarshalBinary()
	for i := 0; i < 64; i++ {
		pk, _ := s.DeriveKeyPair(seed)
		b, _ := pk.MarshalBinary()
		if !bytes.Equal(b, b0) {
			t.Fatalf("DeriveKeyPair(seed) returned two different public keys for the same seed (iteration %d)", i)
		}
	}
	eseed := make([]byte, s.EncapsulationSeedSize())
	ct0, ss0, _ := s.EncapsulateDeterministically(pk0, eseed)
	for i := 0; i < 64; i++ {
		ct, ss, _ := s.EncapsulateDeterministically(pk0, eseed)
		if !bytes.Equal(ct, ct0) || !bytes.Equal(ss, ss0) {
			t.Fatalf("EncapsulateDeterministically returned different outputs for the same seed (iteration %d)", i)
		}
	}
}
