package main

import (
	"fmt"
	"go/token"
	"sort"
	"strings"

	"golang.org/x/tools/go/ssa"
)

// freshOutputScope: per property, the packages whose encoders must define every output byte they touch.
var freshOutputScope = map[string][]string{
	"C01": {"kem/", "pke/", "hpke"},
	"C03": {"pke/kyber", "kem/kyber", "kem/mlkem"},
	"C17": {"tss/", "secretsharing", "math/polynomial"},
	"C18": {"blindsign/"},
	"C04": {"sign/dilithium", "sign/mldsa", "sign/internal/dilithium"},
	"C05": {"sign/ed25519", "sign/ed448", "ecc/goldilocks"},
}

// inPlaceByContract: functions whose slice parameter is an in/out operand by their documented contract.
var inPlaceByContract = map[string]string{
	"sign/ed25519.clamp":                               "clamps the scalar it is given, in place (the caller passes the hash output it owns)",
	"sign/ed25519.div2subY":                            "in-place step x = x/2 - y of the scalar recoding (x is the caller's working copy)",
	"sign/ed448.deriveSecretScalar":                    "clamps the hash output h it is given, in place, before reducing it",
	"blindsign/blindrsa/internal/common.mgf1XOR":       "XORs the MGF1 mask into the buffer it is given (in/out by contract, as in crypto/rsa)",
	"tss/rsa/internal/pss.mgf1XOR":                     "XORs the MGF1 mask into the buffer it is given (in/out by contract, as in crypto/rsa)",
	"blindsign/blindrsa/internal/common.emsaPSSVerify": "clears the unused leftmost bits of the caller's encoded message in place (as crypto/rsa does)",
	"(*dh/sidh.KEM).decrypt":                           "XORs the mask into the buffer that already holds the ciphertext part (documented in/out)",
}

// rmwStores: read-modify-write stores (x op= v) into an element of a slice parameter that are not
// preceded, on every path, by a plain store to the same element or by a call that writes that parameter.
func rmwStores(p *Program, f *ssa.Function) (undefined []string, total int) {
	mod := p.Mod()
	for _, b := range f.Blocks {
		for _, in := range b.Instrs {
			st, ok := in.(*ssa.Store)
			if !ok {
				continue
			}
			bo, ok := st.Val.(*ssa.BinOp)
			if !ok {
				continue
			}
			ia, ok := st.Addr.(*ssa.IndexAddr)
			if !ok {
				continue
			}
			rmw := false
			for _, o := range []ssa.Value{bo.X, bo.Y} {
				if ld, ok := o.(*ssa.UnOp); ok && ld.Op == token.MUL {
					if la, ok := ld.X.(*ssa.IndexAddr); ok && (la == ia || (la.X == ia.X && la.Index == ia.Index) || descAddr(la) == descAddr(ia)) {
						rmw = true
					}
				}
			}
			if !rmw {
				continue
			}
			base, _ := memRoot(st.Addr)
			par, ok := base.(*ssa.Parameter)
			if !ok || !sliceLike(par.Type()) {
				continue
			}
			total++
			defined := false
			for _, b2 := range f.Blocks {
				for _, in2 := range b2.Instrs {
					if defined {
						break
					}
					switch x := in2.(type) {
					case *ssa.Store:
						if x == st {
							continue
						}
						a2, ok := x.Addr.(*ssa.IndexAddr)
						if !ok || !(a2.X == ia.X && a2.Index == ia.Index || descAddr(a2) == descAddr(ia)) {
							continue
						}
						// a plain store: its value does not read the element
						plain := true
						if bo2, ok := x.Val.(*ssa.BinOp); ok {
							for _, o := range []ssa.Value{bo2.X, bo2.Y} {
								if ld, ok := o.(*ssa.UnOp); ok && ld.Op == token.MUL && descAddr(ld.X) == descAddr(a2) {
									plain = false
								}
							}
						}
						if plain && instrDominates(x, st) {
							defined = true
						}
					case ssa.CallInstruction:
						if !instrDominates(x, st) {
							continue
						}
						c := x.Common()
						var args []ssa.Value
						if c.IsInvoke() {
							args = append(args, c.Value)
						}
						args = append(args, c.Args...)
						writes := map[int]bool{}
						for _, i := range externalWrites(p.staticCalleeName(c), len(args)) {
							writes[i] = true
						}
						if cal := c.StaticCallee(); cal != nil && cal.Blocks != nil {
							for _, w := range mod.of(cal) {
								var i int
								if _, err := fmt.Sscanf(w.Root, "param#%d", &i); err == nil {
									writes[i] = true
								}
							}
						}
						for i, a := range args {
							if !writes[i] {
								continue
							}
							if ab, _ := memRoot(a); ab == ssa.Value(par) {
								defined = true
							}
						}
					}
				}
			}
			if !defined {
				undefined = append(undefined, fmt.Sprintf("%s %s= at %s", descAddr(st.Addr), bo.Op, p.pos(st.Pos())))
			}
		}
	}
	return undefined, total
}

// freshOutputRule: an encoder's output does not depend on what its output buffer held before the call.
func (c *Ctx) freshOutputRule(p *Program, rule string, prefixes ...string) {
	for _, pre := range prefixes {
		var hits []string
		nf, ns, nx := 0, 0, 0
		for f := range p.AllFuncs {
			if f.Blocks == nil || !sourceFunc(f) || !isCirclFunc(f) {
				continue
			}
			rel := strings.TrimPrefix(funcPkgPath(f), circlPath+"/")
			if !(rel == strings.TrimSuffix(pre, "/") || strings.HasPrefix(rel, strings.TrimSuffix(pre, "/")+"/")) {
				continue
			}
			und, n := rmwStores(p, f)
			if n == 0 {
				continue
			}
			nf++
			ns += n
			if why, ok := inPlaceByContract[fname(f)]; ok && why != "" {
				nx += len(und)
				continue
			}
			for _, u := range und {
				hits = append(hits, fname(f)+": "+u)
			}
		}
		c.count("freshout_rmw_stores", ns)
		what := pre + ": an output element that is combined with its old contents (|=, ^=, &=, +=) was first defined by the same function"
		sort.Strings(hits)
		if len(hits) > 0 {
			c.bad(rule, what, "the result depends on what the output buffer held before the call: "+strings.Join(hits, "; "), "")
		} else {
			c.ok(rule, what, fmt.Sprintf("%d read-modify-write stores into slice parameters in %d functions, each preceded by a defining store or call (%d in documented in/out operands)", ns, nf, nx), "")
		}
	}
}

func init() {
	for prop, pres := range freshOutputScope {
		prop, pres := prop, pres
		prev := registry[prop]
		if prev == nil {
			panic("freshout: " + prop + " not registered")
		}
		registry[prop] = func(c *Ctx) {
			prev(c)
			if p := c.Prog("amd64"); p != nil {
				c.Clauses = append(c.Clauses, prop+".freshout: an output element that an encoder combines with its old contents was first defined by the same function (the result does not depend on what the output buffer held)")
				c.freshOutputRule(p, prop+".freshout", pres...)
			}
		}
	}
}
