package main

import (
	"fmt"
	"go/constant"
	"go/token"
	"go/types"
	"regexp"
	"sort"
	"strings"

	"golang.org/x/tools/go/ssa"
)

// Round 10 rules.

// distinctKeyRule: the set of seen abscissae in areAllDifferent is keyed by the whole encoding of the
// scalar: every key of the map is string(b) where b is the first result of a MarshalBinary call. A key cut
// to a fixed width makes the distinct 48- and 66-octet scalars of P-384 and P-521 collide (every qualified
// share set is then refused); a key that is not the encoding at all lets repeated abscissae through.
func (c *Ctx) distinctKeyRule(p *Program, rule string) {
	f := p.Func("math/polynomial", "", "areAllDifferent")
	what := "the set of seen abscissae is keyed by the whole MarshalBinary encoding"
	if f == nil {
		c.undecided(rule, what, "areAllDifferent does not resolve", "")
		return
	}
	var keys []ssa.Value
	var pos []token.Pos
	for _, b := range f.Blocks {
		for _, in := range b.Instrs {
			switch x := in.(type) {
			case *ssa.MapUpdate:
				keys = append(keys, x.Key)
				pos = append(pos, x.Pos())
			case *ssa.Lookup:
				if _, ok := x.X.Type().Underlying().(*types.Map); ok {
					keys = append(keys, x.Index)
					pos = append(pos, x.Pos())
				}
			}
		}
	}
	if len(keys) == 0 {
		c.undecided(rule, fname(f)+": "+what, "no map access found", p.fnPos(f))
		return
	}
	var bad []string
	for i, k := range keys {
		if why := wholeEncoding(k); why != "" {
			bad = append(bad, fmt.Sprintf("%s: %s", p.pos(pos[i]), why))
		}
	}
	c.count("distinct_key_sites", len(keys))
	if len(bad) > 0 {
		sort.Strings(bad)
		c.bad(rule, fname(f)+": "+what, strings.Join(bad, "; "), p.fnPos(f))
		return
	}
	c.ok(rule, fname(f)+": "+what, fmt.Sprintf("%d map accesses, each keyed by string(MarshalBinary())", len(keys)), p.fnPos(f))
}

// wholeEncoding: "" when v is string(b) with b the first result of a MarshalBinary call (the octets may pass
// through a MakeInterface-free chain of conversions only).
func wholeEncoding(v ssa.Value) string {
	cv, ok := v.(*ssa.Convert)
	if !ok {
		return "the key is not a conversion of the encoding (" + v.Type().String() + ")"
	}
	b, ok := cv.Type().Underlying().(*types.Basic)
	if !ok || b.Info()&types.IsString == 0 {
		return "the key is not a string of the encoding"
	}
	ex, ok := cv.X.(*ssa.Extract)
	if !ok || ex.Index != 0 {
		if _, isSl := cv.X.(*ssa.Slice); isSl {
			return "the key is a part of the encoding only"
		}
		return "the key is not the result of MarshalBinary"
	}
	call, ok := ex.Tuple.(*ssa.Call)
	if !ok {
		return "the key is not the result of MarshalBinary"
	}
	name := ""
	if call.Call.IsInvoke() {
		name = call.Call.Method.Name()
	} else if sc := call.Call.StaticCallee(); sc != nil {
		name = sc.Name()
	}
	if name != "MarshalBinary" {
		return "the key is the result of " + name + ", not of MarshalBinary"
	}
	return ""
}

// lenOfFieldIs binds len(<load of field name>) in any function of the package to n.
func lenOfFieldIs(name string, n int64, pkgSuffix string) ValAssume {
	return ValAssume{Name: "len(." + name + ")", Val: latInt(n), Match: func(v ssa.Value, in *ssa.Function) bool {
		if in.Pkg == nil || !strings.HasSuffix(in.Pkg.Pkg.Path(), pkgSuffix) {
			return false
		}
		call, ok := v.(*ssa.Call)
		if !ok {
			return false
		}
		bi, ok := call.Call.Value.(*ssa.Builtin)
		if !ok || bi.Name() != "len" || len(call.Call.Args) != 1 {
			return false
		}
		return loadsField(call.Call.Args[0], name)
	}}
}

// loadsField: v is a load of (or a field read of) the named struct field.
func loadsField(v ssa.Value, name string) bool {
	switch x := v.(type) {
	case *ssa.UnOp:
		if x.Op != token.MUL {
			return false
		}
		fa, ok := x.X.(*ssa.FieldAddr)
		return ok && fieldName(fa) == name
	case *ssa.Field:
		st, ok := x.X.Type().Underlying().(*types.Struct)
		return ok && x.Field < st.NumFields() && st.Field(x.Field).Name() == name
	}
	return false
}

func init() {
	prev := registry["C17"]
	registry["C17"] = func(c *Ctx) {
		prev(c)
		if p := c.Prog("amd64"); p != nil {
			c.Clauses = append(c.Clauses,
				"C17.distinctkey: the distinct-abscissae test keys its set by the whole scalar encoding",
				"C17.evalconst: a polynomial of one coefficient (threshold 0) is evaluated to that coefficient (constant propagation with len(c)=1 reaches the Set of the coefficient), and one of two coefficients enters the Horner loop")
			c.distinctKeyRule(p, "C17.distinctkey")
			ev := p.Func("math/polynomial", "Polynomial", "Evaluate")
			c.reachRule(p, "C17.evalconst", "a constant polynomial (one coefficient) evaluates to its coefficient", ev, nil, nil,
				[]ValAssume{lenOfFieldIs("c", 1, "math/polynomial")}, "invoke (group.Scalar).Set", true)
			c.reachRule(p, "C17.evalconst", "a constant polynomial (one coefficient) does not enter the Horner loop", ev, nil, nil,
				[]ValAssume{lenOfFieldIs("c", 1, "math/polynomial")}, "invoke (group.Scalar).Mul", false)
			c.reachRule(p, "C17.evalconst", "a polynomial of two coefficients enters the Horner loop", ev, nil, nil,
				[]ValAssume{lenOfFieldIs("c", 2, "math/polynomial")}, "invoke (group.Scalar).Mul", true)
			c.reachRule(p, "C17.evalconst", "the empty polynomial evaluates to zero (no coefficient is read)", ev, nil, nil,
				[]ValAssume{lenOfFieldIs("c", 0, "math/polynomial")}, "invoke (group.Scalar).Set", false)
		}
	}
}

// simotTranscriptRule: the three key derivations of the simplest-OT protocol (sender k0 and k1, receiver kR)
// hash transcripts of one shape: A ‖ B ‖ P with A and B the two protocol messages (fields A and B of the
// party) and P one freshly computed group element, each in its whole MarshalBinary encoding, and nothing
// else. A party that encodes a further input differently from its peer derives a key the peer does not
// hold; a transcript cut to a fixed width stops depending on P in the larger groups.
func (c *Ctx) simotTranscriptRule(p *Program, rule string) {
	type site struct {
		fn   *ssa.Function
		desc string
		pos  string
	}
	var sites []site
	anchors := map[*ssa.Function]bool{}
	for _, fm := range [][2]string{{"Sender", "Round2Sender"}, {"Receiver", "Round3Receiver"}} {
		f := p.Func("ot/simot", fm[0], fm[1])
		if f == nil {
			c.undecided(rule, "simplest OT: "+fm[1]+" key derivation transcript", "function does not resolve", "")
			return
		}
		anchors[f] = true
	}
	sp := p.SSAPkg[circlPath+"/ot/simot"]
	var fns []*ssa.Function
	for f := range p.AllFuncs {
		if f.Blocks != nil && f.Pkg == sp {
			fns = append(fns, f)
		}
	}
	sort.Slice(fns, func(i, j int) bool { return fns[i].String() < fns[j].String() })
	inAnchors := 0
	for _, f := range fns {
		for _, b := range f.Blocks {
			for _, in := range b.Instrs {
				call, ok := in.(*ssa.Call)
				if !ok {
					continue
				}
				name := ""
				if call.Call.IsInvoke() {
					name = call.Call.Method.Name()
				} else if sc := call.Call.StaticCallee(); sc != nil {
					name = sc.Name()
				}
				if name != "Write" || len(call.Call.Args) == 0 {
					continue
				}
				arg := call.Call.Args[len(call.Call.Args)-1]
				sites = append(sites, site{f, descVal(arg), p.pos(call.Pos())})
				if anchors[f] {
					inAnchors++
				}
			}
		}
	}
	what := "simplest OT: the three key derivations hash A ‖ B ‖ P in whole encodings"
	c.count("simot_transcripts", len(sites))
	if len(sites) == 0 || (inAnchors != 0 && inAnchors != 3) {
		c.bad(rule, what, fmt.Sprintf("%d hash inputs found in the package, %d of them in Round2Sender and Round3Receiver (three expected there, or all of them in a shared helper)", len(sites), inAnchors), "")
		return
	}
	mb := `call:invoke \([^)]*\)\.MarshalBinary\(recv=`
	want := regexp.MustCompile(`^concat\(` + mb + `param#0\.A\)#0 ‖ ` + mb + `param#0\.B\)#0 ‖ ` + mb + `call:invoke \(group\.Group\)\.NewElement\([^‖]*\)\)#0\)$`)
	// a shared helper sees the three elements as its own operands: three whole encodings and nothing else
	helper := regexp.MustCompile(`^concat\(` + mb + `[^‖]*\)#0 ‖ ` + mb + `[^‖]*\)#0 ‖ ` + mb + `[^‖]*\)#0\)$`)
	var bad []string
	for _, s := range sites {
		if !anchors[s.fn] {
			if !helper.MatchString(s.desc) {
				bad = append(bad, fmt.Sprintf("%s (%s): hash input is %s", s.pos, fname(s.fn), s.desc))
			}
			continue
		}
		if !want.MatchString(s.desc) {
			bad = append(bad, fmt.Sprintf("%s (%s): hash input is %s", s.pos, fname(s.fn), s.desc))
		}
	}
	if len(bad) > 0 {
		c.bad(rule, what, strings.Join(bad, "; "), p.fnPos(sites[0].fn))
		return
	}
	c.ok(rule, what, "three hash inputs of the shape A.MarshalBinary ‖ B.MarshalBinary ‖ P.MarshalBinary", p.fnPos(sites[0].fn))
}

func init() {
	prev := registry["C16"]
	registry["C16"] = func(c *Ctx) {
		prev(c)
		if p := c.Prog("amd64"); p != nil {
			c.Clauses = append(c.Clauses, "C16.ottranscript: sender and receiver of the simplest OT hash transcripts of one shape (A ‖ B ‖ P, whole encodings, nothing else)")
			c.simotTranscriptRule(p, "C16.ottranscript")
		}
	}
}

// hintAllRule: VecK.MakeHint computes the hint of every one of the K polynomials. The signing loop discards
// an attempt only when the count of ones exceeds ω, so the loop over the polynomials may be left early only
// on a test that the count already exceeds ω (count > ω, or count >= ω+1); leaving at count == ω hands the
// caller a hint vector whose remaining polynomials are stale, and the caller keeps the attempt.
func (c *Ctx) hintAllRule(p *Program, rule string) {
	n := 0
	for _, pk := range []string{"sign/dilithium/mode2", "sign/dilithium/mode3", "sign/dilithium/mode5", "sign/mldsa/mldsa44", "sign/mldsa/mldsa65", "sign/mldsa/mldsa87"} {
		ip := pk + "/internal"
		f := p.Func(ip, "VecK", "MakeHint")
		what := "the hint of every polynomial is computed unless the count already exceeds ω"
		if f == nil {
			c.undecided(rule, ip+": "+what, "VecK.MakeHint does not resolve", "")
			continue
		}
		omega, ok := p.constInt(ip, "Omega")
		if !ok {
			c.undecided(rule, fname(f)+": "+what, "Omega does not resolve", p.fnPos(f))
			continue
		}
		var bad []string
		loops := 0
		for _, h := range f.Blocks {
			body := loopBody(h)
			if body == nil {
				continue
			}
			loops++
			for b := range body {
				if b == h {
					continue
				}
				for _, s := range b.Succs {
					if body[s] {
						continue
					}
					// an exit from inside the body
					okExit := false
					if iff, isIf := b.Instrs[len(b.Instrs)-1].(*ssa.If); isIf {
						if bo, isBo := iff.Cond.(*ssa.BinOp); isBo {
							taken := b.Succs[0] == s // exit on the true edge
							okExit = exceedsConst(bo, omega, taken)
						}
					}
					if !okExit {
						bad = append(bad, fmt.Sprintf("the loop is left from inside its body at %s on a test that does not imply count > %d", p.pos(firstPos(b)), omega))
					}
				}
			}
		}
		n++
		if loops == 0 {
			c.undecided(rule, fname(f)+": "+what, "no loop found", p.fnPos(f))
			continue
		}
		if len(bad) > 0 {
			sort.Strings(bad)
			c.bad(rule, fname(f)+": "+what, strings.Join(bad, "; "), p.fnPos(f))
			continue
		}
		c.ok(rule, fname(f)+": "+what, fmt.Sprintf("%d loop(s), left only at the header or on count > %d", loops, omega), p.fnPos(f))
	}
	c.count("hint_loops", n)
}

// exceedsConst: the comparison, on the given edge, implies (non-constant operand) > k.
func exceedsConst(bo *ssa.BinOp, k int64, onTrue bool) bool {
	kv := func(v ssa.Value) (int64, bool) {
		cst, ok := v.(*ssa.Const)
		if !ok || cst.Value == nil || cst.Value.Kind() != constant.Int {
			return 0, false
		}
		return cst.Int64(), true
	}
	op := bo.Op
	var n int64
	if y, ok := kv(bo.Y); ok {
		n = y
	} else if x, ok := kv(bo.X); ok {
		// k OP v  ==  v OP' k
		n = x
		switch op {
		case token.LSS:
			op = token.GTR
		case token.LEQ:
			op = token.GEQ
		case token.GTR:
			op = token.LSS
		case token.GEQ:
			op = token.LEQ
		}
	} else {
		return false
	}
	if !onTrue {
		switch op {
		case token.LSS:
			op = token.GEQ
		case token.LEQ:
			op = token.GTR
		case token.GTR:
			op = token.LEQ
		case token.GEQ:
			op = token.LSS
		default:
			return false
		}
	}
	switch op {
	case token.GTR:
		return n >= k
	case token.GEQ:
		return n >= k+1
	}
	return false
}

func init() {
	prev := registry["C04"]
	registry["C04"] = func(c *Ctx) {
		prev(c)
		if p := c.Prog("amd64"); p != nil {
			c.Clauses = append(c.Clauses, "C04.hintall: MakeHint leaves its loop over the polynomials early only when the count of ones already exceeds ω")
			c.hintAllRule(p, "C04.hintall")
		}
	}
}

// notSnapshotRule: Parser.not flips the polarity of exactly the leaves that were declared below the negation.
// It recognises them by a snapshot of the wires that existed before; the snapshot has to tell wires apart
// by their whole identity, i.e. be keyed by the key type of the parser's own wire table. A snapshot keyed by
// the text of a leaf (label, or label and value) takes a repeated leaf under a negation for an old one and
// leaves it unflipped: the parsed policy is not the written one.
func (c *Ctx) notSnapshotRule(p *Program, rule string) {
	f := p.Func("abe/cpabe/tkn20/internal/dsl", "Parser", "not")
	what := "the snapshot of wires declared before a negation is keyed by the wire identity"
	if f == nil {
		c.undecided(rule, what, "Parser.not does not resolve", "")
		return
	}
	var wiresKey types.Type
	for _, b := range f.Blocks {
		for _, in := range b.Instrs {
			if fa, ok := in.(*ssa.FieldAddr); ok && fieldName(fa) == "wires" {
				if pt, ok := fa.Type().Underlying().(*types.Pointer); ok {
					if m, ok := pt.Elem().Underlying().(*types.Map); ok {
						wiresKey = m.Key()
					}
				}
			}
		}
	}
	if wiresKey == nil {
		c.undecided(rule, fname(f)+": "+what, "the wire table is not used", p.fnPos(f))
		return
	}
	n := 0
	var bad []string
	for _, b := range f.Blocks {
		for _, in := range b.Instrs {
			mm, ok := in.(*ssa.MakeMap)
			if !ok {
				continue
			}
			n++
			k := mm.Type().Underlying().(*types.Map).Key()
			if !types.Identical(k, wiresKey) {
				bad = append(bad, fmt.Sprintf("%s: snapshot keyed by %s, the wire table by %s", p.pos(mm.Pos()), types.TypeString(k, nil), types.TypeString(wiresKey, nil)))
			}
		}
	}
	c.count("not_snapshot_maps", n)
	switch {
	case n == 0:
		c.undecided(rule, fname(f)+": "+what, "no snapshot map found", p.fnPos(f))
	case len(bad) > 0:
		c.bad(rule, fname(f)+": "+what, strings.Join(bad, "; "), p.fnPos(f))
	default:
		c.ok(rule, fname(f)+": "+what, fmt.Sprintf("%d snapshot map(s) keyed by %s", n, types.TypeString(wiresKey, nil)), p.fnPos(f))
	}
}

func init() {
	prev := registry["C20"]
	registry["C20"] = func(c *Ctx) {
		prev(c)
		if p := c.Prog("amd64"); p != nil {
			c.Clauses = append(c.Clauses, "C20.notsnapshot: the negation level of the policy parser tells old and new leaves apart by wire identity")
			c.notSnapshotRule(p, "C20.notsnapshot")
		}
	}
}

// narrowSizeRule: a length, capacity, slice bound or index is not the result of an addition, multiplication or
// left shift carried out in an 8- or 16-bit integer type on operands that are not both constants: the type
// admits operands for which the result wraps (255 shares x 32 octets in uint8 is 224), and the buffer then
// has another size than every reader of it assumes. Widening before the arithmetic is what the tree does
// everywhere (the expected number of sites is zero; the engine's own positive example is checked on every
// run through the self-test seeds).
func (c *Ctx) narrowSizeRule(p *Program, rule string, prefixes []string) {
	narrow := func(t types.Type) bool {
		b, ok := t.Underlying().(*types.Basic)
		if !ok {
			return false
		}
		switch b.Kind() {
		case types.Uint8, types.Int8, types.Uint16, types.Int16:
			return true
		}
		return false
	}
	var origin func(v ssa.Value, depth int) *ssa.BinOp
	origin = func(v ssa.Value, depth int) *ssa.BinOp {
		if depth > 8 {
			return nil
		}
		switch x := v.(type) {
		case *ssa.Convert:
			return origin(x.X, depth+1)
		case *ssa.ChangeType:
			return origin(x.X, depth+1)
		case *ssa.BinOp:
			if narrow(x.Type()) && (x.Op == token.MUL || x.Op == token.ADD || x.Op == token.SHL) {
				_, kx := x.X.(*ssa.Const)
				_, ky := x.Y.(*ssa.Const)
				if !(kx && ky) {
					return x
				}
			}
			// a wider sum or product of a narrow one
			if !narrow(x.Type()) && (x.Op == token.MUL || x.Op == token.ADD || x.Op == token.SUB) {
				if o := origin(x.X, depth+1); o != nil {
					return o
				}
				return origin(x.Y, depth+1)
			}
		}
		return nil
	}
	examined, nfun := 0, 0
	var fns []*ssa.Function
	for f := range p.AllFuncs {
		if f.Blocks == nil || !sourceFunc(f) || !isCirclFunc(f) {
			continue
		}
		rel := strings.TrimPrefix(funcPkgPath(f), circlPath+"/")
		okp := len(prefixes) == 0
		for _, pre := range prefixes {
			if strings.HasPrefix(rel, pre) {
				okp = true
			}
		}
		if okp {
			fns = append(fns, f)
		}
	}
	sort.Slice(fns, func(i, j int) bool { return fns[i].String() < fns[j].String() })
	nbad := 0
	for _, f := range fns {
		nfun++
		for _, b := range f.Blocks {
			for _, in := range b.Instrs {
				var sizes []ssa.Value
				kind := ""
				switch x := in.(type) {
				case *ssa.MakeSlice:
					sizes, kind = []ssa.Value{x.Len, x.Cap}, "length of a new slice"
				case *ssa.Slice:
					sizes, kind = []ssa.Value{x.Low, x.High, x.Max}, "slice bound"
				case *ssa.IndexAddr:
					sizes, kind = []ssa.Value{x.Index}, "index"
				default:
					continue
				}
				for _, s := range sizes {
					if s == nil {
						continue
					}
					examined++
					if o := origin(s, 0); o != nil {
						nbad++
						c.bad(rule, fmt.Sprintf("%s: sizes are computed in at least 32 bits", fname(f)), fmt.Sprintf("the %s at %s is %s computed in %s at %s: it wraps for operands the type admits", kind, p.pos(in.Pos()), o.Op.String(), o.Type().String(), p.pos(o.Pos())), p.fnPos(f))
					}
				}
			}
		}
	}
	c.count("narrow_size_operands", examined)
	if examined < 100 {
		c.undecided(rule, "lengths, bounds and indices", fmt.Sprintf("only %d examined", examined), "")
	} else if nbad == 0 {
		c.ok(rule, "no length, bound or index is computed by 8- or 16-bit arithmetic", fmt.Sprintf("%d operands in %d functions", examined, nfun), "")
	}
}

func init() {
	for prop, pre := range map[string][]string{"C19": {"vdaf/"}, "C10": nil} {
		prop, pre := prop, pre
		prev := registry[prop]
		registry[prop] = func(c *Ctx) {
			prev(c)
			if p := c.Prog("amd64"); p != nil {
				c.Clauses = append(c.Clauses, prop+".narrowsize: no length, capacity, slice bound or index is the result of 8- or 16-bit addition, multiplication or shift of non-constant operands")
				c.narrowSizeRule(p, prop+".narrowsize", pre)
			}
		}
	}
}

// deadResultRule: a call whose only effect is to write a local object (the callee writes nothing but memory
// reached through that argument, and returns nothing that is used) is followed by some use of that object.
// `g := *f; fpMod(&g)` with the encoding then taken from f is the shape: the canonical form is computed and
// dropped, and the function goes on with the unreduced operand.
func (c *Ctx) deadResultRule(p *Program, rule string, prefixes []string) {
	var fns []*ssa.Function
	for f := range p.AllFuncs {
		if f.Blocks == nil || !sourceFunc(f) || !isCirclFunc(f) {
			continue
		}
		rel := strings.TrimPrefix(funcPkgPath(f), circlPath+"/")
		for _, pre := range prefixes {
			if strings.HasPrefix(rel, pre) {
				fns = append(fns, f)
				break
			}
		}
	}
	sort.Slice(fns, func(i, j int) bool { return fns[i].String() < fns[j].String() })
	examined, nbad := 0, 0
	for _, f := range fns {
		for _, b := range f.Blocks {
			for _, in := range b.Instrs {
				al, ok := in.(*ssa.Alloc)
				if !ok || al.Referrers() == nil {
					continue
				}
				switch al.Type().(*types.Pointer).Elem().Underlying().(type) {
				case *types.Struct, *types.Array:
				default:
					continue
				}
				var calls []*ssa.Call
				other := false
				for _, r := range *al.Referrers() {
					switch x := r.(type) {
					case *ssa.Store:
						if x.Addr != ssa.Value(al) {
							other = true
						}
					case *ssa.DebugRef:
					case *ssa.Call:
						calls = append(calls, x)
					default:
						other = true
					}
				}
				if other || len(calls) == 0 {
					continue
				}
				examined++
				dead := true
				for _, call := range calls {
					cal := call.Call.StaticCallee()
					if cal == nil || !isCirclFunc(cal) || call.Call.IsInvoke() {
						dead = false
						break
					}
					if call.Referrers() != nil && len(*call.Referrers()) > 0 {
						dead = false // a result is used: the call may be a validation
						break
					}
					idx := -1
					for i, a := range call.Call.Args {
						if a == ssa.Value(al) {
							idx = i
						}
					}
					ws := p.Mod().of(cal)
					if cal.Blocks == nil {
						// an assembly stub: the write model says what it writes
						if wr, known := asmStubWrites(short(cal.String())); known {
							onlyThis := len(wr) > 0
							for _, w := range wr {
								if w != idx {
									onlyThis = false
								}
							}
							if !onlyThis {
								dead = false
							}
							continue
						}
						dead = false
						break
					}
					writesThis := false
					for _, w := range ws {
						if w.Root == fmt.Sprintf("param#%d", idx) {
							writesThis = true
						} else {
							dead = false
						}
					}
					if !writesThis {
						dead = false
					}
					if !dead {
						break
					}
				}
				if dead {
					nbad++
					c.bad(rule, fmt.Sprintf("%s: an object written by a call is used afterwards", fname(f)), fmt.Sprintf("the local at %s is only written (by %s at %s) and never read: the value computed there is dropped", p.pos(al.Pos()), fname(calls[0].Call.StaticCallee()), p.pos(calls[0].Pos())), p.fnPos(f))
				}
			}
		}
	}
	c.count("dead_result_locals", examined)
	if nbad == 0 {
		c.ok(rule, "no local object is written by a call and then dropped", fmt.Sprintf("%d locals whose only uses are calls", examined), "")
	}
}

func init() {
	for prop, pre := range map[string][]string{"C09": {"ecc/", "group", "math/", "sign/ed", "dh/"}, "C12": {"ecc/", "math/", "group", "sign/ed25519", "sign/internal", "pke/kyber/internal", "vdaf/prio3/arith", "dh/"}} {
		prop, pre := prop, pre
		prev := registry[prop]
		registry[prop] = func(c *Ctx) {
			prev(c)
			if p := c.Prog("amd64"); p != nil {
				c.Clauses = append(c.Clauses, prop+".deadresult: no local object is written by a call (whose only effect is that write) and never read afterwards")
				c.deadResultRule(p, prop+".deadresult", pre)
			}
		}
	}
}

// memoRule: process-wide memo tables and buffer pools are state that outlives a call. The tree has none; where
// one appears the rule demands what makes it invisible: (i) a sync.Map rooted at a package-level variable is
// keyed by an argument of the function itself (through conversions only) - a key derived by some other
// function may identify two different arguments (white space stripped from a policy makes "not a: x" and
// "nota: x" one entry); (ii) memory taken from a sync.Pool is cleared (builtin clear, on the value or a slice
// of it) in the function that takes it, before anything else can read what an earlier user left there.
func (c *Ctx) memoRule(p *Program, rule string) {
	var fns []*ssa.Function
	for f := range p.AllFuncs {
		if f.Blocks != nil && sourceFunc(f) && isCirclFunc(f) {
			fns = append(fns, f)
		}
	}
	sort.Slice(fns, func(i, j int) bool { return fns[i].String() < fns[j].String() })
	n, nbad := 0, 0
	argItself := func(f *ssa.Function, v ssa.Value) bool {
		for i := 0; i < 8; i++ {
			switch x := v.(type) {
			case *ssa.MakeInterface:
				v = x.X
			case *ssa.Convert:
				v = x.X
			case *ssa.ChangeType:
				v = x.X
			case *ssa.Parameter:
				return true
			default:
				return false
			}
		}
		return false
	}
	for _, f := range fns {
		for _, b := range f.Blocks {
			for _, in := range b.Instrs {
				call, ok := in.(*ssa.Call)
				if !ok {
					continue
				}
				name := p.staticCalleeName(&call.Call)
				switch name {
				case "(*sync.Map).Load", "(*sync.Map).Store", "(*sync.Map).LoadOrStore", "(*sync.Map).LoadAndDelete", "(*sync.Map).Swap":
					base, _ := memRoot(call.Call.Args[0])
					if _, isGlobal := base.(*ssa.Global); !isGlobal {
						continue
					}
					n++
					if !argItself(f, call.Call.Args[1]) {
						nbad++
						c.bad(rule, fname(f)+": a process-wide memo table is keyed by an argument itself", fmt.Sprintf("the key of %s at %s is %s, a derived value: two different arguments may share an entry", name, p.pos(call.Pos()), descVal(call.Call.Args[1])), p.fnPos(f))
					}
				case "(*sync.Pool).Get":
					n++
					cleared := false
					for _, b2 := range f.Blocks {
						for _, in2 := range b2.Instrs {
							if c2, ok := in2.(*ssa.Call); ok {
								if bi, ok := c2.Call.Value.(*ssa.Builtin); ok && bi.Name() == "clear" {
									cleared = true
								}
							}
						}
					}
					if !cleared {
						nbad++
						c.bad(rule, fname(f)+": memory taken from a pool is cleared before use", fmt.Sprintf("%s at %s: no clear of the pooled memory in this function; what an earlier user left in it is read as if it were zero", name, p.pos(call.Pos())), p.fnPos(f))
					}
				}
			}
		}
	}
	c.count("memo_sites", n)
	if nbad == 0 {
		c.ok(rule, "process-wide memo tables are keyed by the argument itself and pooled memory is cleared", fmt.Sprintf("%d memo / pool sites in %d functions (the tree has none)", n, len(fns)), "")
	}
}

func init() {
	prev := registry["C11"]
	registry["C11"] = func(c *Ctx) {
		prev(c)
		if p := c.Prog("amd64"); p != nil {
			c.Clauses = append(c.Clauses, "C11.memo: a package-level sync.Map is keyed by an argument itself; memory from a sync.Pool is cleared in the function that takes it")
			c.memoRule(p, "C11.memo")
		}
	}
}

// carriedBorrowRule: in a loop over the words of a multi-word operand, the borrow (carry) that one
// math/bits.Sub64 / Add64 produces and that is carried into the next iteration (a phi of the loop header) is
// consumed there as the borrow-in (carry-in) of an arithmetic call. A loop that keeps overwriting the borrow
// and feeds every word a constant borrow-in decides "x < y" by the last word alone.
func (c *Ctx) carriedBorrowRule(p *Program, rule string) {
	var fns []*ssa.Function
	for f := range p.AllFuncs {
		if f.Blocks != nil && sourceFunc(f) && isCirclFunc(f) && !strings.Contains(funcPkgPath(f), "/internal/test") {
			fns = append(fns, f)
		}
	}
	sort.Slice(fns, func(i, j int) bool { return fns[i].String() < fns[j].String() })
	isArith := func(v ssa.Value) *ssa.Call {
		call, ok := v.(*ssa.Call)
		if !ok {
			return nil
		}
		switch p.staticCalleeName(&call.Call) {
		case "math/bits.Add64", "math/bits.Sub64", "math/bits.Add32", "math/bits.Sub32", "math/bits.Add", "math/bits.Sub":
			return call
		}
		return nil
	}
	n, nbad := 0, 0
	for _, f := range fns {
		for _, h := range f.Blocks {
			body := loopBody(h)
			if body == nil {
				continue
			}
			for _, in := range h.Instrs {
				phi, ok := in.(*ssa.Phi)
				if !ok {
					break
				}
				// one incoming edge from inside the loop is the borrow result of an arithmetic call in the loop
				var src *ssa.Call
				for _, e := range phi.Edges {
					if ex, ok := e.(*ssa.Extract); ok && ex.Index == 1 {
						if call := isArith(ex.Tuple); call != nil && body[call.Block()] {
							src = call
						}
					}
				}
				if src == nil || !phiIsRead(phi) {
					// a variable declared outside the loop and re-assigned before every use: the phi is dead
					continue
				}
				n++
				consumed := false
				for _, r := range *phi.Referrers() {
					if call, ok := r.(*ssa.Call); ok && isArith(call) != nil && len(call.Call.Args) == 3 && call.Call.Args[2] == ssa.Value(phi) {
						// in the loop, or by the unrolled last iteration after it
						consumed = true
					}
					// passed on to a helper or combined with other flags: not this shape
					switch r.(type) {
					case *ssa.BinOp, *ssa.Store, *ssa.Convert, *ssa.Phi:
						if rr, ok := r.(ssa.Instruction); ok && body[rr.Block()] {
							consumed = true
						}
					}
				}
				if !consumed {
					nbad++
					c.bad(rule, fname(f)+": a borrow carried round a word loop is fed into the next word", fmt.Sprintf("the borrow of %s at %s is carried to the next iteration (and out of the loop) but no arithmetic call in the loop takes it as borrow-in: only the last word decides", p.staticCalleeName(&src.Call), p.pos(src.Pos())), p.fnPos(f))
				}
			}
		}
	}
	c.count("carried_borrows", n)
	if nbad == 0 {
		c.ok(rule, "every borrow carried round a word loop is consumed as a borrow-in there", fmt.Sprintf("%d loop-carried borrows", n), "")
	}
}

func init() {
	for _, prop := range []string{"C05", "C12", "C09"} {
		prop := prop
		prev := registry[prop]
		registry[prop] = func(c *Ctx) {
			prev(c)
			if p := c.Prog("amd64"); p != nil {
				c.Clauses = append(c.Clauses, prop+".carriedborrow: a borrow or carry of math/bits arithmetic that is carried round a loop over words is consumed as the borrow-in of the next word")
				c.carriedBorrowRule(p, prop+".carriedborrow")
			}
		}
	}
}

// phiIsRead: some instruction other than a phi or a debug reference uses the phi (through further phis).
func phiIsRead(phi *ssa.Phi) bool {
	seen := map[*ssa.Phi]bool{}
	var walk func(x *ssa.Phi) bool
	walk = func(x *ssa.Phi) bool {
		if seen[x] || x.Referrers() == nil {
			return false
		}
		seen[x] = true
		for _, r := range *x.Referrers() {
			switch y := r.(type) {
			case *ssa.DebugRef:
			case *ssa.Phi:
				if walk(y) {
					return true
				}
			default:
				return true
			}
		}
		return false
	}
	return walk(phi)
}

// millerAffineRule: the Miller loop of BLS12-381 reads the x and y of its G1 argument as affine coordinates.
// At every call site of miller the argument is either a local on which toAffine was called on every path
// before, or an element of a slice that comes, on every return path of whatever produced it, out of
// affinize. A producer with a path that hands back plain copies (a fast path for a single point) evaluates
// the lines on projective coordinates: the product of pairings is wrong for every point with Z != 1.
func (c *Ctx) millerAffineRule(p *Program, rule string) {
	const pkg = "ecc/bls12381"
	sp := p.SSAPkg[circlPath+"/"+pkg]
	if sp == nil {
		c.undecided(rule, "Miller loop arguments are affine", "package does not resolve", "")
		return
	}
	var mustAff func(v ssa.Value, depth int) bool
	mustReturnAffinize := func(cal *ssa.Function, depth int) bool {
		if cal == nil || cal.Blocks == nil {
			return false
		}
		any := false
		for _, b := range cal.Blocks {
			if ret, ok := b.Instrs[len(b.Instrs)-1].(*ssa.Return); ok {
				if len(ret.Results) == 0 || !mustAff(ret.Results[0], depth+1) {
					return false
				}
				any = true
			}
		}
		return any
	}
	mustAff = func(v ssa.Value, depth int) bool {
		if depth > 6 {
			return false
		}
		switch x := v.(type) {
		case *ssa.Phi:
			for _, e := range x.Edges {
				if !mustAff(e, depth+1) {
					return false
				}
			}
			return len(x.Edges) > 0
		case *ssa.Call:
			cal := x.Call.StaticCallee()
			if cal == nil {
				return false
			}
			if cal.Name() == "affinize" && cal.Pkg == sp {
				return true
			}
			return cal.Pkg == sp && mustReturnAffinize(cal, depth)
		case *ssa.Slice:
			return mustAff(x.X, depth+1)
		}
		return false
	}
	n := 0
	var fns []*ssa.Function
	for f := range p.AllFuncs {
		if f.Blocks != nil && f.Pkg == sp && sourceFunc(f) {
			fns = append(fns, f)
		}
	}
	sort.Slice(fns, func(i, j int) bool { return fns[i].String() < fns[j].String() })
	for _, f := range fns {
		for _, b := range f.Blocks {
			for _, in := range b.Instrs {
				call, ok := in.(*ssa.Call)
				if !ok {
					continue
				}
				cal := call.Call.StaticCallee()
				if cal == nil || cal.Name() != "miller" || cal.Pkg != sp || len(call.Call.Args) < 2 {
					continue
				}
				n++
				arg := call.Call.Args[1]
				construct := fmt.Sprintf("%s: the G1 argument of the Miller loop is affine", fname(f))
				okArg, how := false, ""
				switch a := arg.(type) {
				case *ssa.Alloc:
					// a local copy normalised in place
					for _, r := range *a.Referrers() {
						if c2, ok := r.(*ssa.Call); ok {
							if t := c2.Call.StaticCallee(); t != nil && t.Name() == "toAffine" && len(c2.Call.Args) > 0 && c2.Call.Args[0] == ssa.Value(a) && instrDominates(c2, call) {
								okArg, how = true, "toAffine is called on the local on every path before"
							}
						}
					}
				case *ssa.IndexAddr:
					if mustAff(a.X, 0) {
						okArg, how = true, "element of a slice that comes out of affinize on every path"
					}
				}
				if okArg {
					c.ok(rule, construct, how, p.pos(call.Pos()))
				} else {
					c.bad(rule, construct, fmt.Sprintf("the argument %s at %s is neither normalised by toAffine nor, on every path, a result of affinize", descVal(arg), p.pos(call.Pos())), p.fnPos(f))
				}
			}
		}
	}
	c.count("miller_sites", n)
	if n < 3 {
		c.undecided(rule, "Miller loop call sites", fmt.Sprintf("only %d found (three on the tree)", n), "")
	}
}

func init() {
	prev := registry["C13"]
	registry["C13"] = func(c *Ctx) {
		prev(c)
		if p := c.Prog("amd64"); p != nil {
			c.Clauses = append(c.Clauses, "C13.milleraffine: every G1 argument of the BLS12-381 Miller loop was normalised (toAffine on the local, or affinize on every path that produces the slice)")
			c.millerAffineRule(p, "C13.milleraffine")
		}
	}
}

// bigWordRule: a word of a math/big.Int (an element of the slice Bits() returns) is not incremented or
// decremented in place: the addition may carry (and the subtraction of a negative digit is an addition), and
// nothing propagates it into the next word. Word-level edits that cannot carry (masks, shifts, assignments of
// values computed elsewhere) are not subject, nor are functions that do their own carry chain with math/bits.
func (c *Ctx) bigWordRule(p *Program, rule string) {
	var fns []*ssa.Function
	for f := range p.AllFuncs {
		if f.Blocks != nil && sourceFunc(f) && isCirclFunc(f) {
			fns = append(fns, f)
		}
	}
	sort.Slice(fns, func(i, j int) bool { return fns[i].String() < fns[j].String() })
	n, nbad := 0, 0
	for _, f := range fns {
		usesBits, chain := false, false
		for _, b := range f.Blocks {
			for _, in := range b.Instrs {
				if call, ok := in.(*ssa.Call); ok {
					switch p.staticCalleeName(&call.Call) {
					case "(*math/big.Int).Bits":
						usesBits = true
					case "math/bits.Add64", "math/bits.Sub64", "math/bits.Add", "math/bits.Sub", "math/bits.Add32", "math/bits.Sub32":
						chain = true
					}
				}
			}
		}
		if !usesBits {
			continue
		}
		n++
		if chain {
			continue
		}
		for _, b := range f.Blocks {
			for _, in := range b.Instrs {
				st, ok := in.(*ssa.Store)
				if !ok {
					continue
				}
				bo, ok := st.Val.(*ssa.BinOp)
				if !ok || (bo.Op != token.ADD && bo.Op != token.SUB) {
					continue
				}
				base, _ := memRoot(st.Addr)
				call, ok := base.(*ssa.Call)
				if !ok || p.staticCalleeName(&call.Call) != "(*math/big.Int).Bits" {
					continue
				}
				nbad++
				c.bad(rule, fname(f)+": words of a big.Int are not added to in place", fmt.Sprintf("the word stored at %s is the old word %s something, with no carry into the next word", p.pos(st.Pos()), bo.Op.String()), p.fnPos(f))
			}
		}
	}
	c.count("big_bits_functions", n)
	if nbad == 0 {
		c.ok(rule, "no word of a big.Int is incremented or decremented in place", fmt.Sprintf("%d functions read the words of a big.Int", n), "")
	}
}

func init() {
	for _, prop := range []string{"C05", "C13"} {
		prop := prop
		prev := registry[prop]
		registry[prop] = func(c *Ctx) {
			prev(c)
			if p := c.Prog("amd64"); p != nil {
				c.Clauses = append(c.Clauses, prop+".bigword: no word of a math/big.Int (Bits()) is incremented or decremented in place without a carry chain")
				c.bigWordRule(p, prop+".bigword")
			}
		}
	}
}

// fixedPrefixRule: a prefix (or window) taken out of a fixed-size array with a bound that is the result of an
// interface method call (the block size of whatever hash the caller chose, the length of an encoding) is
// preceded by a comparison of that bound: otherwise the array's size is an unstated limit and the slice
// expression panics (or, with copy, truncates) for an implementation beyond it.
func (c *Ctx) fixedPrefixRule(p *Program, rule string) {
	var fns []*ssa.Function
	for f := range p.AllFuncs {
		if f.Blocks != nil && sourceFunc(f) && isCirclFunc(f) {
			fns = append(fns, f)
		}
	}
	sort.Slice(fns, func(i, j int) bool { return fns[i].String() < fns[j].String() })
	n, nbad := 0, 0
	fromInvoke := func(v ssa.Value) *ssa.Call {
		for i := 0; i < 6; i++ {
			switch x := v.(type) {
			case *ssa.Convert:
				v = x.X
			case *ssa.ChangeType:
				v = x.X
			case *ssa.Call:
				if x.Call.IsInvoke() {
					return x
				}
				return nil
			default:
				return nil
			}
		}
		return nil
	}
	for _, f := range fns {
		for _, b := range f.Blocks {
			for _, in := range b.Instrs {
				sl, ok := in.(*ssa.Slice)
				if !ok || sl.High == nil {
					continue
				}
				pt, ok := sl.X.Type().Underlying().(*types.Pointer)
				if !ok {
					continue
				}
				if _, isArr := pt.Elem().Underlying().(*types.Array); !isArr {
					continue
				}
				call := fromInvoke(sl.High)
				if call == nil {
					continue
				}
				n++
				compared := false
				var visit func(v ssa.Value, d int)
				visit = func(v ssa.Value, d int) {
					if d > 3 || v.Referrers() == nil {
						return
					}
					for _, r := range *v.Referrers() {
						switch y := r.(type) {
						case *ssa.BinOp:
							if isCmp(y.Op) {
								compared = true
							}
						case *ssa.Convert:
							visit(y, d+1)
						case *ssa.ChangeType:
							visit(y, d+1)
						}
					}
				}
				visit(call, 0)
				if !compared {
					nbad++
					c.bad(rule, fname(f)+": a window of a fixed-size array is not bounded by an unchecked interface result", fmt.Sprintf("the bound of the slice at %s is the result of %s, which is compared with nothing in this function; the array has %s", p.pos(sl.Pos()), p.staticCalleeName(&call.Call), pt.Elem().String()), p.fnPos(f))
				}
			}
		}
	}
	c.count("fixed_prefix_sites", n)
	if nbad == 0 {
		c.ok(rule, "no window of a fixed-size array is bounded by an unchecked interface result", fmt.Sprintf("%d such windows on the tree (the stored seeded change is the positive example run by the thorough tier)", n), "")
	}
}

func init() {
	for _, prop := range []string{"C10", "C15"} {
		prop := prop
		prev := registry[prop]
		registry[prop] = func(c *Ctx) {
			prev(c)
			if p := c.Prog("amd64"); p != nil {
				c.Clauses = append(c.Clauses, prop+".fixedprefix: a slice of a fixed-size array bounded by the result of an interface method call is preceded by a comparison of that result")
				c.fixedPrefixRule(p, prop+".fixedprefix")
			}
		}
	}
}
