package count_test

// Demonstration (C19): (1) PrepInit accepted the aggregator id equal to the number of shares (valid ids
// are 0..shares-1); (2) PrepSharesToPrep did not check that it received one preparation share per
// aggregator: with an empty list the FLP decision runs on the all-zero verifier, which passes for
// Count and Sum, so a preparation message was produced although no proof had been examined.
//
// Copy to vdaf/prio3/count/ and run: go test -run TestDemoPrepBounds ./vdaf/prio3/count/

import (
	"crypto/rand"
	"testing"

	"github.com/cloudflare/circl/vdaf/prio3/count"
)

func TestDemoPrepBounds(t *testing.T) {
	const shares = 2
	v, err := count.New(shares, []byte("ctx"))
	if err != nil {
		t.Fatal(err)
	}
	params := v.Params()
	rnd := make([]byte, params.RandSize())
	_, _ = rand.Read(rnd)
	var nonce count.Nonce
	var key count.VerifyKey
	pub, inputs, err := v.Shard(true, &nonce, rnd)
	if err != nil {
		t.Fatal(err)
	}
	if _, _, err := v.PrepInit(&key, &nonce, shares, pub, inputs[1]); err == nil {
		t.Errorf("PrepInit accepted aggregator id %d of %d aggregators", shares, shares)
	}
	if msg, err := v.PrepSharesToPrep(nil); err == nil {
		t.Errorf("PrepSharesToPrep accepted an empty list of preparation shares (message %v)", msg)
	}
	_, p0, err := v.PrepInit(&key, &nonce, 0, pub, inputs[0])
	if err != nil {
		t.Fatal(err)
	}
	if _, err := v.PrepSharesToPrep([]count.PrepShare{*p0}); err == nil {
		t.Errorf("PrepSharesToPrep accepted one preparation share for two aggregators")
	}
}
