package frodo640shake

import (
	"bytes"
	"testing"
)

// Ciphertext, shared secret and packed public key are functions of the seeds only: what the
// output buffers held before the call must not matter. Place in kem/frodo/frodo640shake and run
// go test -run TestFindingDirtyBuffer ./kem/frodo/frodo640shake/ .
func TestFindingDirtyBuffer(t *testing.T) {
	var kseed [KeySeedSize]byte
	var eseed [EncapsulationSeedSize]byte
	pk, sk := newKeyFromSeed(kseed[:])

	ct0, ss0 := make([]byte, CiphertextSize), make([]byte, SharedKeySize)
	pk.EncapsulateTo(ct0, ss0, eseed[:])

	ct1, ss1 := bytes.Repeat([]byte{0xFF}, CiphertextSize), bytes.Repeat([]byte{0xFF}, SharedKeySize)
	pk.EncapsulateTo(ct1, ss1, eseed[:])
	if !bytes.Equal(ct0, ct1) || !bytes.Equal(ss0, ss1) {
		t.Errorf("EncapsulateTo depends on the previous contents of its output buffers (ciphertexts equal: %v, secrets equal: %v)", bytes.Equal(ct0, ct1), bytes.Equal(ss0, ss1))
	}
	got := make([]byte, SharedKeySize)
	sk.DecapsulateTo(got, ct1)
	if !bytes.Equal(got, ss1) {
		t.Errorf("the ciphertext written into a used buffer does not decapsulate to the secret that was returned with it")
	}

	p0, p1 := make([]byte, PublicKeySize), bytes.Repeat([]byte{0xFF}, PublicKeySize)
	pk.Pack(p0)
	pk.Pack(p1)
	if !bytes.Equal(p0, p1) {
		t.Errorf("PublicKey.Pack depends on the previous contents of its output buffer")
	}
}
