package main

import (
	"fmt"
	"go/constant"
	"go/token"
	"go/types"
	"sort"
	"strings"

	"golang.org/x/tools/go/ssa"
)

// valueSet: the finite set of integers v can take, when that is derivable from its definition.
func valueSet(v ssa.Value, depth int) (map[int64]bool, bool) {
	if depth > 6 {
		return nil, false
	}
	switch x := v.(type) {
	case *ssa.Const:
		if x.Value == nil || x.Value.Kind() != constant.Int {
			return nil, false
		}
		n, ok := constant.Int64Val(x.Value)
		if !ok {
			return nil, false
		}
		return map[int64]bool{n: true}, true
	case *ssa.Convert:
		return valueSet(x.X, depth+1)
	case *ssa.ChangeType:
		return valueSet(x.X, depth+1)
	case *ssa.UnOp:
		if x.Op == token.SUB {
			if s, ok := valueSet(x.X, depth+1); ok {
				out := map[int64]bool{}
				for k := range s {
					out[-k] = true
				}
				return out, true
			}
		}
		return nil, false
	case *ssa.BinOp:
		switch x.Op {
		case token.SHR:
			k, ok := x.Y.(*ssa.Const)
			bt, okb := x.X.Type().Underlying().(*types.Basic)
			if !ok || !okb || k.Value == nil {
				return nil, false
			}
			w := map[types.BasicKind]int64{types.Uint8: 7, types.Uint16: 15, types.Uint32: 31, types.Uint64: 63, types.Uint: 63, types.Int8: 7, types.Int16: 15, types.Int32: 31, types.Int64: 63, types.Int: 63}[bt.Kind()]
			if n, exact := constant.Int64Val(constant.ToInt(k.Value)); exact && w != 0 && n == w {
				if bt.Info()&types.IsUnsigned != 0 {
					return map[int64]bool{0: true, 1: true}, true
				}
				return map[int64]bool{0: true, -1: true}, true // arithmetic shift of a signed value
			}
			return nil, false
		case token.AND:
			for _, o := range []ssa.Value{x.X, x.Y} {
				if k, ok := o.(*ssa.Const); ok && k.Value != nil && k.Value.ExactString() == "1" {
					return map[int64]bool{0: true, 1: true}, true
				}
			}
			return nil, false
		case token.SUB, token.ADD:
			a, oka := valueSet(x.X, depth+1)
			b, okb := valueSet(x.Y, depth+1)
			if !oka || !okb || len(a)*len(b) > 16 {
				return nil, false
			}
			out := map[int64]bool{}
			for i := range a {
				for j := range b {
					if x.Op == token.SUB {
						out[i-j] = true
					} else {
						out[i+j] = true
					}
				}
			}
			return out, true
		}
		return nil, false
	case *ssa.Phi:
		out := map[int64]bool{}
		for _, e := range x.Edges {
			if e == ssa.Value(x) {
				continue
			}
			s, ok := valueSet(e, depth+1)
			if !ok {
				return nil, false
			}
			for k := range s {
				out[k] = true
			}
		}
		return out, len(out) > 0
	case *ssa.Call:
		if cal := x.Call.StaticCallee(); cal != nil {
			n := cal.String()
			if strings.HasPrefix(n, "crypto/subtle.ConstantTime") && !strings.HasSuffix(n, "Select") && !strings.HasSuffix(n, "Copy") {
				return map[int64]bool{0: true, 1: true}, true
			}
		}
		return nil, false
	case *ssa.Extract:
		if c, ok := x.Tuple.(*ssa.Call); ok && x.Index == 1 {
			if cal := c.Call.StaticCallee(); cal != nil && (strings.HasPrefix(cal.String(), "math/bits.Add") || strings.HasPrefix(cal.String(), "math/bits.Sub")) {
				return map[int64]bool{0: true, 1: true}, true
			}
		}
		return nil, false
	}
	return nil, false
}

// selectorParams: for every circl function, the parameters that are forwarded (unchanged, up to
// conversions) into the selector argument of crypto/subtle.ConstantTimeCopy / ConstantTimeSelect, directly
// or through other such functions. Keyed by the printed name of the function so that the marks of the
// portable configuration can be applied to the assembly declarations of another one.
func selectorParams(p *Program) map[string]map[int]bool {
	marks := map[string]map[int]bool{}
	subtleSel := map[string]int{"crypto/subtle.ConstantTimeCopy": 0, "crypto/subtle.ConstantTimeSelect": 0}
	strip := func(v ssa.Value) ssa.Value {
		for {
			switch x := v.(type) {
			case *ssa.Convert:
				v = x.X
				continue
			case *ssa.ChangeType:
				v = x.X
				continue
			}
			return v
		}
	}
	for changed := true; changed; {
		changed = false
		for f := range p.AllFuncs {
			if f.Blocks == nil || !isCirclFunc(f) {
				continue
			}
			for _, b := range f.Blocks {
				for _, in := range b.Instrs {
					ci, ok := in.(ssa.CallInstruction)
					if !ok || ci.Common().IsInvoke() {
						continue
					}
					name := p.staticCalleeName(ci.Common())
					var sel []int
					if i, ok := subtleSel[name]; ok {
						sel = []int{i}
					} else if cal := ci.Common().StaticCallee(); cal != nil {
						for i := range marks[fname(cal)] {
							sel = append(sel, i)
						}
					}
					for _, i := range sel {
						if i >= len(ci.Common().Args) {
							continue
						}
						if par, ok := strip(ci.Common().Args[i]).(*ssa.Parameter); ok {
							for j, q := range f.Params {
								if q == par {
									if marks[fname(f)] == nil {
										marks[fname(f)] = map[int]bool{}
									}
									if !marks[fname(f)][j] {
										marks[fname(f)][j] = true
										changed = true
									}
								}
							}
						}
					}
				}
			}
		}
	}
	return marks
}

// checkSelectors: every value that reaches the selector of a constant-time copy / select is 0 or 1
// whenever its value set is derivable: crypto/subtle defines these functions for 0 and 1 only, while the
// assembly conditional moves of the same name accept any non-zero flag - a mask 0 / -1 works in one build
// configuration and not in the other.
func checkSelectors(c *Ctx, progs map[string]*Program) {
	marks := map[string]map[int]bool{}
	for _, n := range []string{"amd64-purego", "amd64", "arm64"} {
		if p := progs[n]; p != nil {
			for k, v := range selectorParams(p) {
				if marks[k] == nil {
					marks[k] = map[int]bool{}
				}
				for i := range v {
					marks[k][i] = true
				}
			}
		}
	}
	var names []string
	for n := range progs {
		names = append(names, n)
	}
	sort.Strings(names)
	subtleSel := map[string]int{"crypto/subtle.ConstantTimeCopy": 0, "crypto/subtle.ConstantTimeSelect": 0}
	for _, n := range names {
		p := progs[n]
		c.cur = n
		sites, derivable := 0, 0
		var bad []string
		for f := range p.AllFuncs {
			if f.Blocks == nil || !isCirclFunc(f) || !sourceFunc(f) {
				continue
			}
			for _, b := range f.Blocks {
				for _, in := range b.Instrs {
					ci, ok := in.(ssa.CallInstruction)
					if !ok || ci.Common().IsInvoke() {
						continue
					}
					name := p.staticCalleeName(ci.Common())
					var sel []int
					if i, ok := subtleSel[name]; ok {
						sel = []int{i}
					} else if cal := ci.Common().StaticCallee(); cal != nil && isCirclFunc(cal) {
						for i := range marks[fname(cal)] {
							sel = append(sel, i)
						}
					}
					for _, i := range sel {
						if i >= len(ci.Common().Args) {
							continue
						}
						sites++
						s, ok := valueSet(ci.Common().Args[i], 0)
						if !ok {
							continue
						}
						derivable++
						var out []string
						for k := range s {
							if k != 0 && k != 1 {
								out = append(out, fmt.Sprint(k))
							}
						}
						if len(out) > 0 {
							sort.Strings(out)
							bad = append(bad, fmt.Sprintf("%s in %s passes %s, which can be %s, as the selector of %s", p.pos(ci.Pos()), fname(f), descVal(ci.Common().Args[i]), strings.Join(out, ", "), name))
						}
					}
				}
			}
		}
		c.count("selector_sites_"+n, sites)
		what := "selectors of constant-time moves and selects are 0 or 1 (" + n + ")"
		sort.Strings(bad)
		switch {
		case len(bad) > 0:
			c.bad("C14.selector", what, strings.Join(bad, "; "), "")
		case sites < 20:
			c.undecided("C14.selector", what, fmt.Sprintf("only %d selector sites found (floor 20)", sites), "")
		default:
			c.ok("C14.selector", what, fmt.Sprintf("%d selector sites (%d functions forward a parameter into one), %d with a derivable value set, all within {0,1}", sites, len(marks), derivable), "")
		}
	}
	c.cur = ""
}
