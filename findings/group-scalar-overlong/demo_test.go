package group_test

// Demonstrates (C10): the NIST-curve scalar decoder copies the input into s.k[l-len(b):l]; for an input
// longer than the scalar length l the lower bound is negative and UnmarshalBinary panics. Reached from
// oprf.PrivateKey.UnmarshalBinary and dleq.Proof.UnmarshalBinary.
// Place in /repo/group: go test -run TestFindingScalarOverlong ./group/

import (
	"testing"

	"github.com/cloudflare/circl/group"
)

func TestFindingScalarOverlong(t *testing.T) {
	for _, g := range []group.Group{group.P256, group.P384, group.P521} {
		func() {
			defer func() {
				if r := recover(); r != nil {
					t.Errorf("%v: Scalar.UnmarshalBinary panics on over-long input: %v", g, r)
				}
			}()
			s := g.NewScalar()
			if err := s.UnmarshalBinary(make([]byte, 100)); err == nil {
				t.Errorf("%v: over-long scalar accepted", g)
			}
		}()
	}
}
