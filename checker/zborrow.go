package main

import (
	"fmt"
	"sort"
	"strings"

	"golang.org/x/tools/go/ssa"
)

// BORROW: the borrow out of a multi-word subtraction is consulted.
//
// A subtraction chain built from math/bits.Sub64 (or from the word-slice helpers add/sub of
// ecc/goldilocks/scalar.go) yields the difference modulo 2^(64k) and a borrow. Dropping the borrow of the last
// word is right only when the difference is known not to be negative, or when the sign is carried by another
// value. Every site that drops it is listed here with the reason, confirmed by reading; any other site is
// reported. Sites are keyed by function and by the ordinal of the call among the calls of the same callee in
// that function (source order), not by line.
//
// What this decides: a necessary condition of "returns a representative of the correct residue". It does not
// decide that a consulted borrow is used correctly.
var droppedBorrowSites = map[string]string{
	"ecc/fourq.fpSubGeneric#2":                    "operands are below 2^127: bit 127 of the 128-bit difference is the sign and is shifted out as x two lines below",
	"ecc/fourq.fpSubGeneric#4":                    "subtracts the sign bit from a value that is at least 1 when the sign bit is set (a-b+2^127 with a>=0, b<2^127)",
	"ecc/fourq.subYDiv16#5":                       "signed recoding step: x is odd and at least 2^4 above |y| by construction of the digit, the five-word difference is not negative",
	"ecc/fourq.div2subY#4":                        "signed recoding step (mLSBRecoding): x/2 - y with |y| <= 1, x >= 2",
	"ecc/goldilocks.subYDiv16#7":                  "signed recoding step: the seven-word value stays positive (digit is x mod 32 - 16)",
	"math/fp25519.subGeneric#9":                   "second fold of the borrow: after a first fold that borrowed, the value is at least 2^256-38, so subtracting 38 again cannot borrow",
	"math/fp25519.modpGeneric#4":                  "bit 255 was cleared and cx is 0 or 19 times a two-bit value plus 19: the subtraction is a conditional one guarded by the computed quotient",
	"math/fp448.subGeneric#21":                    "second fold of the borrow z7: after a first fold that borrowed, the value is at least 2^448-2^224-1",
	"sign/ed25519.red512#5":                       "r4 is the signed top word of the accumulator; its sign bit is read as m = -(r4>>63) right after the loop",
	"sign/ed25519.div2subY#L":                     "signed recoding step (mLSBRecoding): x/2 - y with |y| <= 1",
	"ecc/goldilocks.scalar64.reduceOneWord.add#2": "after the first fold carried, z is below residue448*2^64 < 2^291: adding residue448 times the carry cannot carry again",
	"ecc/goldilocks.Scalar.Sub.sub#3":             "second fold: a first fold that borrowed leaves at least 2^448-residue448, so subtracting residue448 again cannot borrow",
}

func checkDroppedBorrow(c *Ctx, p *Program, rule string) {
	var fs []*ssa.Function
	for f := range p.AllFuncs {
		if f.Blocks == nil || !isCirclFunc(f) || !sourceFunc(f) || strings.Contains(funcPkgPath(f), "/internal/test") {
			continue
		}
		if strings.HasPrefix(f.Name(), "fiat") || strings.Contains(p.pos(f.Pos()), "fiat") {
			continue
		}
		fs = append(fs, f)
	}
	sort.Slice(fs, func(i, j int) bool { return fs[i].String() < fs[j].String() })
	nsub, ndrop, nbad := 0, 0, 0
	seen := map[string]bool{}
	for _, f := range fs {
		type site struct {
			cl   *ssa.Call
			kind string
		}
		var calls []site
		for _, b := range f.Blocks {
			for _, in := range b.Instrs {
				cl, ok := in.(*ssa.Call)
				if !ok {
					continue
				}
				name := p.staticCalleeName(&cl.Call)
				switch name {
				case "math/bits.Sub64":
					calls = append(calls, site{cl, ""})
				case "ecc/goldilocks.add":
					calls = append(calls, site{cl, ".add"})
				case "ecc/goldilocks.sub":
					calls = append(calls, site{cl, ".sub"})
				}
			}
		}
		if len(calls) == 0 {
			continue
		}
		sort.SliceStable(calls, func(i, j int) bool { return calls[i].cl.Pos() < calls[j].cl.Pos() })
		ord := map[string]int{}
		for _, s := range calls {
			ord[s.kind]++
			nsub++
			dropped := false
			if s.kind == "" {
				dropped = true
				for _, r := range *s.cl.Referrers() {
					if ex, ok := r.(*ssa.Extract); ok && ex.Index == 1 && len(*ex.Referrers()) > 0 {
						dropped = false
					}
				}
			} else {
				dropped = len(*s.cl.Referrers()) == 0
			}
			if !dropped {
				continue
			}
			ndrop++
			fn := fname(f)
			fn = strings.NewReplacer("(*", "", "(", "", ")", "").Replace(fn)
			key := fmt.Sprintf("%s%s#%d", fn, s.kind, ord[s.kind])
			what := "borrow"
			if s.kind == ".add" {
				what = "carry"
			}
			// a loop body: the ordinal is that of the call, the last word is handled after the loop
			if _, ok := droppedBorrowSites[key]; !ok {
				if _, okL := droppedBorrowSites[fn+s.kind+"#L"]; okL && ord[s.kind] == len(calls) {
					key = fn + s.kind + "#L"
				}
			}
			if reason, ok := droppedBorrowSites[key]; ok {
				seen[key] = true
				c.ok(rule, fname(f)+": the "+what+" dropped at call "+key+" cannot be set", reason, p.pos(s.cl.Pos()))
				continue
			}
			nbad++
			c.bad(rule, fname(f)+": the "+what+" out of the last word of a multi-word subtraction is consulted", "the "+what+" returned at "+p.pos(s.cl.Pos())+" ("+key+") is dropped: the result is then the difference modulo a power of two, not modulo the field or group order, whenever the true difference is negative; this site is not among the ones shown not to need it", p.pos(s.cl.Pos()))
		}
	}
	c.count("subtraction_sites", nsub)
	c.count("dropped_borrows", ndrop)
	if nsub == 0 {
		c.undecided(rule, "multi-word subtractions", "none found", "")
	} else if nbad == 0 {
		c.ok(rule, "every dropped borrow is one shown not to be set", fmt.Sprintf("%d subtraction words, %d dropped", nsub, ndrop), "")
	}
}

func init() {
	prev := registry["C12"]
	registry["C12"] = func(c *Ctx) {
		prev(c)
		if p := c.Prog("amd64"); p != nil {
			c.Clauses = append(c.Clauses, "C12.borrow: the borrow (carry) out of the last word of a multi-word subtraction (bits.Sub64 chains, the goldilocks scalar word helpers) is consulted, except at the listed sites where it is shown not to be set")
			checkDroppedBorrow(c, p, "C12.borrow")
		}
	}
}
