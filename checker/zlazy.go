package main

import (
	"fmt"
	"go/token"
	"go/types"
	"sort"
	"strings"

	"golang.org/x/tools/go/ssa"
)

// LAZY: a field that an accessor fills on first use is read only through that accessor.
//
// `func (k *PrivateKey) Public() *PublicKey { if k.pub == nil { k.pub = derive(k) }; return k.pub }` makes
// pub a cache: it is nil until the accessor ran (and again after a decoder reset it). A function that reads
// the field directly and uses the value works in every test that happened to call the accessor first, and
// dereferences nil otherwise. Lazy fields are found from the code (a function that compares the field
// with nil, assigns it and returns it, or an assignment inside a function literal handed to sync.Once); every other function that loads the field and uses the value for anything but a
// nil comparison is reported.
func checkLazyFields(c *Ctx, p *Program, rule string, prefixes []string, floor int) {
	type key struct {
		typ   string
		field string
	}
	var fs []*ssa.Function
	for f := range p.AllFuncs {
		if f.Blocks != nil && isCirclFunc(f) && sourceFunc(f) && !strings.Contains(funcPkgPath(f), "/internal/test") && (prefixes == nil || inScope(f, prefixes)) {
			fs = append(fs, f)
		}
	}
	sort.Slice(fs, func(i, j int) bool { return fs[i].String() < fs[j].String() })
	keyOf := func(fa *ssa.FieldAddr) (key, bool) {
		st := derefType(fa.X.Type())
		if _, ok := st.Underlying().(*types.Struct); !ok {
			return key{}, false
		}
		ft := derefType(fa.Type())
		if !pointerLike(ft) {
			return key{}, false
		}
		if _, isPtr := ft.Underlying().(*types.Pointer); !isPtr {
			return key{}, false
		}
		return key{st.String(), fieldName(fa)}, true
	}
	isNilCmp := func(in ssa.Instruction, v ssa.Value) bool {
		bo, ok := in.(*ssa.BinOp)
		if !ok || (bo.Op != token.EQL && bo.Op != token.NEQ) {
			return false
		}
		other := bo.Y
		if bo.Y == v {
			other = bo.X
		}
		k, ok := other.(*ssa.Const)
		return ok && k.IsNil()
	}
	type use struct {
		f   *ssa.Function
		pos token.Pos
	}
	stores := map[key]map[*ssa.Function]bool{}
	niltest := map[key]map[*ssa.Function]bool{}
	valueUse := map[key][]use{}
	inClosure := map[key]bool{} // filled inside a function literal (the sync.Once form)
	returnsIt := map[key]map[*ssa.Function]bool{}
	for _, f0 := range fs {
		f := f0
		for f.Parent() != nil {
			f = f.Parent()
		}
		for _, b := range f0.Blocks {
			for _, in := range b.Instrs {
				switch x := in.(type) {
				case *ssa.Store:
					if fa, ok := x.Addr.(*ssa.FieldAddr); ok {
						if k, ok := keyOf(fa); ok {
							if stores[k] == nil {
								stores[k] = map[*ssa.Function]bool{}
							}
							// a store of nil is a reset, not a fill
							if kc, isC := x.Val.(*ssa.Const); !isC || !kc.IsNil() {
								stores[k][f] = true
								if f0 != f {
									inClosure[k] = true
								}
							}
						}
					}
				case *ssa.UnOp:
					if x.Op != token.MUL {
						continue
					}
					fa, ok := x.X.(*ssa.FieldAddr)
					if !ok {
						continue
					}
					k, ok := keyOf(fa)
					if !ok {
						continue
					}
					for _, r := range *x.Referrers() {
						if isNilCmp(r, x) {
							if niltest[k] == nil {
								niltest[k] = map[*ssa.Function]bool{}
							}
							niltest[k][f] = true
						} else {
							valueUse[k] = append(valueUse[k], use{f, x.Pos()})
							if _, isRet := r.(*ssa.Return); isRet {
								if returnsIt[k] == nil {
									returnsIt[k] = map[*ssa.Function]bool{}
								}
								returnsIt[k][f] = true
							} else if ct, isCT := r.(*ssa.ChangeType); isCT {
								for _, rr := range *ct.Referrers() {
									if _, isRet := rr.(*ssa.Return); isRet {
										if returnsIt[k] == nil {
											returnsIt[k] = map[*ssa.Function]bool{}
										}
										returnsIt[k][f] = true
									}
								}
							}
						}
					}
				}
			}
		}
	}
	var lazy []key
	for k, fm := range stores {
		if inClosure[k] {
			lazy = append(lazy, k)
			continue
		}
		for f := range fm {
			// the accessor form: tests for nil, fills, and hands the field out
			if niltest[k][f] && returnsIt[k][f] {
				lazy = append(lazy, k)
				break
			}
		}
	}
	sort.Slice(lazy, func(i, j int) bool { return lazy[i].typ+lazy[i].field < lazy[j].typ+lazy[j].field })
	nbad := 0
	for _, k := range lazy {
		var bad []string
		seen := map[*ssa.Function]bool{}
		for _, u := range valueUse[k] {
			if stores[k][u.f] || niltest[k][u.f] || seen[u.f] {
				continue // the accessor itself, or a reader that tests for nil first
			}
			seen[u.f] = true
			bad = append(bad, fmt.Sprintf("%s at %s", fname(u.f), p.pos(u.pos)))
		}
		what := fmt.Sprintf("field %s of %s, filled on first use, is read only by the accessor that fills it", k.field, short(k.typ))
		if len(bad) > 0 {
			sort.Strings(bad)
			nbad++
			c.bad(rule, what, "read directly, without a nil test, in "+strings.Join(bad, ", ")+": the field is nil until the accessor has run on this object (and again after a decoder reset it)", "")
		} else {
			c.ok(rule, what, "no other function uses its value", "")
		}
	}
	c.count("lazy_fields", len(lazy))
	if len(lazy) < floor {
		c.undecided(rule, "lazily filled fields", fmt.Sprintf("only %d found (floor %d)", len(lazy), floor), "")
	}
}

func init() {
	for prop, sc := range map[string][]string{"C16": {"oprf"}, "C11": nil} {
		prop, sc := prop, sc
		prev := registry[prop]
		registry[prop] = func(c *Ctx) {
			prev(c)
			if p := c.Prog("amd64"); p != nil {
				c.Clauses = append(c.Clauses, prop+".lazyfield: a pointer field that an accessor fills on first use (nil test and assignment in one function) is not read directly, without a nil test, by any other function")
				checkLazyFields(c, p, prop+".lazyfield", sc, 1)
			}
		}
	}
}
