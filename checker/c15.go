package main

// C15 (hashes, XOFs and Ascon match their specifications on every input and chunking): structural
// clauses — state copying and resetting touch every field the streaming operations modify, the
// domain-separation / rate constants are the specified ones, Ascon's tag comparison uses a buffer
// that cannot alias the caller's data. Digest values are runtime quantities and are not decided.

import (
	"fmt"
	"go/constant"
	"go/token"
	"go/types"
	"regexp"
	"sort"
	"strings"

	"golang.org/x/tools/go/ssa"
)

func init() { registry["C15"] = checkC15 }

// structOf: the named struct type a method's receiver denotes.
func recvStruct(f *ssa.Function) (*types.Named, *types.Struct) {
	if f == nil || f.Signature.Recv() == nil {
		return nil, nil
	}
	t := f.Signature.Recv().Type()
	if pt, ok := t.(*types.Pointer); ok {
		t = pt.Elem()
	}
	n, ok := t.(*types.Named)
	if !ok {
		return nil, nil
	}
	st, ok := n.Underlying().(*types.Struct)
	if !ok {
		return nil, nil
	}
	return n, st
}

// cloneRule: the copy a Clone method builds carries every field of the receiver: either the whole
// struct is copied, or each field is stored from a value that derives from the same field.
func (c *Ctx) cloneRule(p *Program, f *ssa.Function) {
	if f == nil {
		c.undecided("C15.clone", "clone method", "function not found", "")
		return
	}
	named, st := recvStruct(f)
	construct := fname(f) + ": copies every field"
	if st == nil {
		c.undecided("C15.clone", construct, "receiver is not a struct", p.fnPos(f))
		return
	}
	// the local of the receiver's type that is built and returned
	var allocs []*ssa.Alloc
	for _, b := range f.Blocks {
		for _, in := range b.Instrs {
			if a, ok := in.(*ssa.Alloc); ok && types.Identical(a.Type().(*types.Pointer).Elem(), named) {
				allocs = append(allocs, a)
			}
		}
	}
	if len(allocs) == 0 {
		c.undecided("C15.clone", construct, "no local of the receiver type is built", p.fnPos(f))
		return
	}
	for _, a := range allocs {
		covered := map[int]string{}
		fieldDeps := map[int]bool{} // the stored value may depend on the same field of the receiver
		dfn := p.Dep().analyse(f)
		whole := false
		for _, r := range *a.Referrers() {
			switch x := r.(type) {
			case *ssa.Store:
				if x.Addr == ssa.Value(a) {
					// whole-struct copy: *ret = *recv
					if u, ok := x.Val.(*ssa.UnOp); ok && u.Op == token.MUL && paramRoot(f, u.X) == 0 {
						whole = true
					}
				}
			case *ssa.FieldAddr:
				for _, rr := range *x.Referrers() {
					if stv, ok := rr.(*ssa.Store); ok && stv.Addr == ssa.Value(x) {
						covered[x.Field] = descVal(stv.Val)
						if dfn != nil && len(f.Params) > 0 {
							if dfn.hasLabel(dfn.fullDep(stv.Val), "field:"+f.Params[0].Name()+"."+st.Field(x.Field).Name()) {
								fieldDeps[x.Field] = true
							}
						}
					}
				}
			}
		}
		// reference-typed fields (slices, pointers, maps) whose target is modified in place by some
		// method must be deep-copied: a shallow copy lets the clone and the original share it
		var shared []string
		pkgRel := strings.TrimPrefix(named.Obj().Pkg().Path(), circlPath+"/")
		for i := 0; i < st.NumFields(); i++ {
			switch st.Field(i).Type().Underlying().(type) {
			case *types.Slice, *types.Pointer, *types.Map:
			default:
				continue
			}
			fn := st.Field(i).Name()
			inPlace := false
			for _, w := range p.fieldWriters(pkgRel, named.Obj().Name(), fn) {
				if w.Kind != "assign" && w.Kind != "assign-copy-of-itself" {
					inPlace = true
				}
			}
			if !inPlace {
				continue
			}
			d, individually := covered[i]
			if whole && !individually {
				shared = append(shared, fn+" (copied only by the whole-struct copy)")
			} else if individually && (d == "param#0."+fn || d == "*param#0."+fn) {
				shared = append(shared, fn+" (assigned the same reference)")
			}
		}
		if len(shared) > 0 {
			c.bad("C15.clone", construct, "fields modified in place by the type's methods are shared between the original and the copy: "+strings.Join(shared, ", "), p.fnPos(f))
			return
		}
		if whole {
			c.ok("C15.clone", construct, "whole-struct copy of the receiver; reference fields that are modified in place are re-assigned", p.fnPos(f))
			return
		}
		var missing, wrong []string
		for i := 0; i < st.NumFields(); i++ {
			d, ok := covered[i]
			fn := st.Field(i).Name()
			if !ok {
				missing = append(missing, fn)
			} else if !strings.Contains(d, "."+fn) && !fieldDeps[i] {
				wrong = append(wrong, fmt.Sprintf("%s <- %s", fn, d))
			}
		}
		if len(covered) == 0 {
			continue
		}
		switch {
		case len(missing) > 0:
			c.bad("C15.clone", construct, "fields not copied: "+strings.Join(missing, ", "), p.fnPos(f))
		case len(wrong) > 0:
			c.bad("C15.clone", construct, "fields copied from something other than the same field: "+strings.Join(wrong, "; "), p.fnPos(f))
		default:
			c.ok("C15.clone", construct, fmt.Sprintf("all %d fields stored from the receiver's fields", st.NumFields()), p.fnPos(f))
		}
		return
	}
	c.undecided("C15.clone", construct, "the copy is not built field by field nor by a whole-struct copy", p.fnPos(f))
}

var viaFieldRe = regexp.MustCompile(`^[&*(]*param#\d+\)?\.([A-Za-z_][A-Za-z0-9_]*)`)
var viaWholeRe = regexp.MustCompile(`^[&*(]*param#\d+\)?$`)

// topField: the top-level field of the receiver a mod-set entry writes ("" if not recognisable,
// "*" for the whole object).
func topField(via string) string {
	segs := strings.Split(via, " → ")
	for i, sg := range segs {
		if i > 0 {
			if k := strings.Index(sg, ": "); k >= 0 {
				sg = sg[k+2:]
			}
		}
		sg = strings.TrimSpace(sg)
		if k := strings.Index(sg, " (written by"); k >= 0 {
			sg = sg[:k]
		}
		if m := viaFieldRe.FindStringSubmatch(sg); m != nil {
			return m[1]
		}
		if !viaWholeRe.MatchString(sg) {
			// e.g. param#0[...] : an element of the receiver itself
			return ""
		}
	}
	return "*"
}

// fieldsWritten: top-level fields of the receiver a method may write (through circl callees too).
func (p *Program) fieldsWritten(f *ssa.Function) map[string]bool {
	out := map[string]bool{}
	for _, w := range p.Mod().of(f) {
		if w.Root != "param#0" {
			continue
		}
		if n := topField(w.Via); n != "" {
			out[n] = true
		}
	}
	return out
}

// resetRule: Reset rewrites every field the streaming methods modify (except those listed).
func (c *Ctx) resetRule(p *Program, pkg, typ string, streaming []string, except map[string]string) {
	reset := p.Func(pkg, typ, "Reset")
	construct := fmt.Sprintf("(%s.%s).Reset rewrites every field that %s modify", pkg, typ, strings.Join(streaming, "/"))
	if reset == nil {
		c.undecided("C15.reset", construct, "Reset not found", "")
		return
	}
	rw := p.fieldsWritten(reset)
	mod := map[string]bool{}
	for _, m := range streaming {
		f := p.Func(pkg, typ, m)
		if f == nil {
			c.undecided("C15.reset", construct, m+" not found", "")
			return
		}
		for k := range p.fieldsWritten(f) {
			mod[k] = true
		}
	}
	if len(mod) < 2 {
		c.undecided("C15.reset", construct, fmt.Sprintf("streaming methods modify only %v: effect analysis lost the writes", keysOf(mod)), p.fnPos(reset))
		return
	}
	var missing, excused []string
	for k := range mod {
		if rw[k] {
			continue
		}
		if why, ok := except[k]; ok {
			excused = append(excused, k+" ("+why+")")
		} else {
			missing = append(missing, k)
		}
	}
	sort.Strings(missing)
	sort.Strings(excused)
	if len(missing) > 0 {
		c.bad("C15.reset", construct, fmt.Sprintf("modified %v, reset %v: not reset: %s", keysOf(mod), keysOf(rw), strings.Join(missing, ", ")), p.fnPos(reset))
		return
	}
	w := fmt.Sprintf("modified %v ⊆ reset %v", keysOf(mod), keysOf(rw))
	if len(excused) > 0 {
		w += "; excused: " + strings.Join(excused, "; ")
	}
	c.ok("C15.reset", construct, w, p.fnPos(reset))
}

func keysOf(m map[string]bool) []string {
	var out []string
	for k := range m {
		out = append(out, k)
	}
	sort.Strings(out)
	return out
}

// ctorConsts: the constant field values of the struct literal a constructor returns.
func ctorFields(p *Program, f *ssa.Function) map[string]string {
	out := map[string]string{}
	if f == nil {
		return out
	}
	for _, b := range f.Blocks {
		for _, in := range b.Instrs {
			st, ok := in.(*ssa.Store)
			if !ok {
				continue
			}
			fa, ok := st.Addr.(*ssa.FieldAddr)
			if !ok {
				continue
			}
			if _, isAlloc := fa.X.(*ssa.Alloc); !isAlloc {
				continue
			}
			if k, ok := st.Val.(*ssa.Const); ok && k.Value != nil {
				switch k.Value.Kind() {
				case constant.Int:
					out[fieldName(fa)] = k.Value.ExactString()
				case constant.Bool:
					out[fieldName(fa)] = k.Value.String()
				}
			} else {
				out[fieldName(fa)] = descVal(st.Val)
			}
		}
	}
	return out
}

func checkC15(c *Ctx) {
	p := c.Prog("amd64")
	if p == nil {
		return
	}
	c.Clauses = append(c.Clauses,
		"C15.clone: every Clone of a streaming state (sha3.State, k12.State) copies each field of the state from the same field of the receiver (or the whole struct), and deep-copies every slice / pointer field that some method modifies in place",
		"C15.reset: Reset rewrites every field Write/Read modify (mod-set of the streaming methods ⊆ mod-set of Reset, with reasoned exceptions)",
		"C15.params: the sponge constructors set rate = 200 - 2·security bytes, the SHA-3 (0x06) / SHAKE (0x1f) domain bytes, 12 rounds only for TurboSHAKE; KangarooTwelve uses the domain bytes 0x07 (single node), 0x0B (leaves), 0x06 (final node) and 8192-byte chunks",
		"C15.ascon-tag: Open computes the expected tag into a buffer of its own (not derived from any parameter, hence not aliasing dst or the ciphertext) and releases the plaintext only behind the constant-time comparison with the received tag",
		"C15.expander: expand_message_xmd / expand_message_xof hash the domain separation tag exactly when it is longer than 255 bytes (boundary values 255 and 256 evaluated by constant propagation)",
		"C15.lanes: the 2- and 4-way permutation wrappers pass the round-count flag on (every parameter of permuteSIMDx2/x4 and permuteScalarX2/X4 reaches the scalar permutation)")
	c.NotDec = append(c.NotDec,
		"digest and output-stream values, padding arithmetic, chunking/partition independence of the buffered absorb/squeeze code",
		"equality of the SIMD permutations (assembly) with the scalar one",
		"the expander and BLAKE2X constructions (covered where C17 anchors them)")
	// clone
	c.cloneRule(p, p.Func("internal/sha3", "State", "clone"))
	c.cloneRule(p, p.Func("xof/k12", "State", "Clone"))
	// delegation of the public Clone wrappers
	for _, w := range []struct{ pkg, typ, callee string }{
		{"internal/sha3", "State", "(internal/sha3.State).clone"},
		{"xof", "k12d10", "(xof/k12.State).Clone"},
	} {
		f := p.Func(w.pkg, w.typ, "Clone")
		construct := fmt.Sprintf("(%s.%s).Clone delegates to %s", w.pkg, w.typ, w.callee)
		if f == nil {
			c.undecided("C15.clone", construct, "function not found", "")
			continue
		}
		found := false
		for _, b := range f.Blocks {
			for _, in := range b.Instrs {
				if ci, ok := in.(ssa.CallInstruction); ok && normName(p.staticCalleeName(ci.Common())) == w.callee {
					found = true
				}
			}
		}
		if found {
			c.ok("C15.clone", construct, "call found", p.fnPos(f))
		} else {
			c.bad("C15.clone", construct, "the wrapper does not call it", p.fnPos(f))
		}
	}
	// hash.Hash: "Sum appends the current hash to b ... It does not change the underlying hash state"
	{
		n := 0
		var fs []*ssa.Function
		for f := range p.AllFuncs {
			if f.Blocks != nil && isCirclFunc(f) && sourceFunc(f) && f.Name() == "Sum" && f.Signature.Recv() != nil && !strings.Contains(funcPkgPath(f), "/internal/test") {
				fs = append(fs, f)
			}
		}
		sort.Slice(fs, func(i, j int) bool { return fs[i].String() < fs[j].String() })
		for _, f := range fs {
			n++
			var ws []string
			for _, w := range p.Mod().of(f) {
				if w.Root == "param#0" {
					ws = append(ws, fmt.Sprintf("%s (%s)", p.pos(w.Pos), w.Via))
				}
			}
			construct := fname(f) + ": Sum leaves the state it is called on unchanged (it pads and squeezes a copy)"
			if len(ws) > 0 {
				sort.Strings(ws)
				c.bad("C15.clone", construct, "the receiver is written: "+strings.Join(ws, "; "), p.fnPos(f))
			} else {
				c.ok("C15.clone", construct, "mod-set does not contain the receiver", p.fnPos(f))
			}
		}
		if n == 0 {
			c.undecided("C15.clone", "Sum methods", "none found", "")
		}
	}
	checkSumDropped(c, p, "C15.clone")
	// a slice field whose nil-ness is state (`if s.buf == nil` elsewhere in the type) is cloned so that an
	// empty non-nil slice stays non-nil: `append([]byte(nil), s.buf...)` turns it into nil
	for _, cl := range []struct{ pkg, typ, name string }{{"xof/k12", "State", "Clone"}, {"internal/sha3", "State", "clone"}} {
		f := p.Func(cl.pkg, cl.typ, cl.name)
		what := "(" + cl.pkg + "." + cl.typ + ")." + cl.name + ": a slice whose nil-ness other methods test is copied without losing it"
		if f == nil {
			c.undecided("C15.clone", what, "anchor does not resolve", "")
			continue
		}
		// fields of the type compared with nil anywhere in the package
		nilTested := map[string]bool{}
		for g := range p.AllFuncs {
			if g.Blocks == nil || funcPkgPath(g) != circlPath+"/"+cl.pkg {
				continue
			}
			for _, b := range g.Blocks {
				for _, in := range b.Instrs {
					bo, ok := in.(*ssa.BinOp)
					if !ok || (bo.Op != token.EQL && bo.Op != token.NEQ) {
						continue
					}
					k, isK := bo.Y.(*ssa.Const)
					ld, isLd := bo.X.(*ssa.UnOp)
					if !isK || !k.IsNil() || !isLd {
						continue
					}
					if fa, ok := ld.X.(*ssa.FieldAddr); ok {
						if _, isSlice := ld.Type().Underlying().(*types.Slice); isSlice {
							nilTested[fieldName(fa)] = true
						}
					}
				}
			}
		}
		var bad []string
		n := 0
		for _, b := range f.Blocks {
			for _, in := range b.Instrs {
				st, ok := in.(*ssa.Store)
				if !ok {
					continue
				}
				fa, ok := st.Addr.(*ssa.FieldAddr)
				if !ok || !nilTested[fieldName(fa)] {
					continue
				}
				n++
				// the copy is made whenever the source is non-nil: a controlling test on the field is a test
				// against nil, not on its length (an empty non-nil slice must stay non-nil)
				for d := b; d != nil; d = d.Idom() {
					iff, ok := d.Instrs[len(d.Instrs)-1].(*ssa.If)
					if !ok || d == b {
						continue
					}
					if bo, ok := iff.Cond.(*ssa.BinOp); ok {
						for _, side := range []ssa.Value{bo.X, bo.Y} {
							if call, ok := side.(*ssa.Call); ok {
								if bi, ok := call.Call.Value.(*ssa.Builtin); ok && bi.Name() == "len" && len(call.Call.Args) == 1 && loadsField(call.Call.Args[0], fieldName(fa)) {
									bad = append(bad, fmt.Sprintf("the copy of field %s at %s is made only for a non-zero length (test at %s): an empty non-nil slice becomes nil", fieldName(fa), p.pos(st.Pos()), p.pos(iff.Cond.Pos())))
								}
							}
						}
					}
				}
				if call, ok := st.Val.(*ssa.Call); ok {
					if bi, ok := call.Call.Value.(*ssa.Builtin); ok && bi.Name() == "append" && len(call.Call.Args) > 0 {
						if k, ok := call.Call.Args[0].(*ssa.Const); ok && k.IsNil() {
							bad = append(bad, fmt.Sprintf("field %s is copied with append(nil, ...) at %s: an empty non-nil slice becomes nil", fieldName(fa), p.pos(st.Pos())))
						}
					}
				}
			}
		}
		if len(bad) > 0 {
			c.bad("C15.clone", what, strings.Join(bad, "; "), p.fnPos(f))
		} else {
			c.ok("C15.clone", what, fmt.Sprintf("%d store(s) into nil-tested slice fields, none through append(nil, ...)", n), p.fnPos(f))
		}
	}
	// reset
	c.resetRule(p, "internal/sha3", "State", []string{"Write", "Read"}, map[string]string{
		"storage": "the buffer contents outside [bufo, bufe) are dead; Reset empties the window",
	})
	c.resetRule(p, "xof/k12", "State", []string{"Write", "Read"}, map[string]string{
		"leaf": "re-created by Write whenever buf is nil, which Reset establishes",
	})
	// the exception above rests on "Write re-creates the leaf whenever it starts a new one": the assignment of
	// s.leaf in Write must not itself be conditional on what s.leaf holds (Reset does not clear it)
	{
		f := p.Func("xof/k12", "State", "Write")
		what := "(*xof/k12.State).Write: the leaf sponge is re-created unconditionally when a new leaf starts (Reset does not clear it)"
		if f == nil {
			c.undecided("C15.reset", what, "anchor does not resolve", "")
		} else {
			recv := ssa.Value(f.Params[0])
			readsLeaf := func(v ssa.Value) bool {
				seen := map[ssa.Value]bool{}
				var walk func(ssa.Value) bool
				walk = func(x ssa.Value) bool {
					if seen[x] {
						return false
					}
					seen[x] = true
					switch y := x.(type) {
					case *ssa.UnOp:
						if fa, ok := y.X.(*ssa.FieldAddr); ok && fa.X == recv && fieldName(fa) == "leaf" {
							return true
						}
						return walk(y.X)
					case *ssa.BinOp:
						return walk(y.X) || walk(y.Y)
					case *ssa.Phi:
						for _, e := range y.Edges {
							if walk(e) {
								return true
							}
						}
					}
					return false
				}
				return walk(v)
			}
			n := 0
			var bad []string
			for _, b := range f.Blocks {
				for _, in := range b.Instrs {
					st, ok := in.(*ssa.Store)
					if !ok {
						continue
					}
					fa, ok := st.Addr.(*ssa.FieldAddr)
					if !ok || fa.X != recv || fieldName(fa) != "leaf" {
						continue
					}
					n++
					for d := b; d.Idom() != nil; d = d.Idom() {
						pd := d.Idom()
						ifi, ok := pd.Instrs[len(pd.Instrs)-1].(*ssa.If)
						if !ok || len(d.Preds) != 1 {
							continue
						}
						if readsLeaf(ifi.Cond) {
							bad = append(bad, fmt.Sprintf("the assignment at %s is guarded by a test of s.leaf at %s", p.pos(st.Pos()), p.pos(ifi.Pos())))
						}
					}
				}
			}
			switch {
			case n == 0:
				c.bad("C15.reset", what, "Write never assigns s.leaf", p.fnPos(f))
			case len(bad) > 0:
				c.bad("C15.reset", what, strings.Join(bad, "; ")+": after Reset the old leaf (possibly mid-absorb or already squeezed) is reused", p.fnPos(f))
			default:
				c.ok("C15.reset", what, fmt.Sprintf("%d assignment(s), none conditional on the old leaf", n), p.fnPos(f))
			}
		}
	}
	// constructor parameters
	want := []struct {
		fn     string
		fields map[string]string
	}{
		{"New224", map[string]string{"rate": "144", "outputLen": "28", "dsbyte": "6"}},
		{"New256", map[string]string{"rate": "136", "outputLen": "32", "dsbyte": "6"}},
		{"New384", map[string]string{"rate": "104", "outputLen": "48", "dsbyte": "6"}},
		{"New512", map[string]string{"rate": "72", "outputLen": "64", "dsbyte": "6"}},
		{"NewShake128", map[string]string{"rate": "168", "dsbyte": "31"}},
		{"NewShake256", map[string]string{"rate": "136", "dsbyte": "31"}},
		{"NewTurboShake128", map[string]string{"rate": "168", "dsbyte": "param#0", "turbo": "true"}},
		{"NewTurboShake256", map[string]string{"rate": "136", "dsbyte": "param#0", "turbo": "true"}},
	}
	for _, w := range want {
		f := p.Func("internal/sha3", "", w.fn)
		construct := "internal/sha3." + w.fn + " parameters"
		if f == nil {
			c.undecided("C15.params", construct, "constructor not found", "")
			continue
		}
		got := ctorFields(p, f)
		var diffs []string
		for k, v := range w.fields {
			if got[k] != v {
				diffs = append(diffs, fmt.Sprintf("%s = %q, specified %s", k, got[k], v))
			}
		}
		if _, isTurbo := w.fields["turbo"]; !isTurbo && got["turbo"] == "true" {
			diffs = append(diffs, "turbo set on a 24-round function")
		}
		sort.Strings(diffs)
		if len(diffs) > 0 {
			c.bad("C15.params", construct, strings.Join(diffs, "; "), p.fnPos(f))
		} else {
			c.ok("C15.params", construct, fmt.Sprintf("%v", got), p.fnPos(f))
		}
	}
	// one-shot functions: the state comes from the constructor of the same function (the domain-separation
	// byte and output length are the constructor's), and from no other constructor or one-shot function
	for fn, ctor := range map[string]string{"Sum224": "New224", "Sum256": "New256", "Sum384": "New384", "Sum512": "New512", "ShakeSum128": "NewShake128", "ShakeSum256": "NewShake256"} {
		f := p.Func("internal/sha3", "", fn)
		construct := "internal/sha3." + fn + " hashes with the state of " + ctor
		if f == nil {
			c.undecided("C15.params", construct, "function not found", "")
			continue
		}
		var ctors []string
		for _, b := range f.Blocks {
			for _, in := range b.Instrs {
				if ci, ok := in.(ssa.CallInstruction); ok {
					n := normName(p.staticCalleeName(ci.Common()))
					if strings.HasPrefix(n, "internal/sha3.New") || strings.HasPrefix(n, "internal/sha3.Sum") || strings.HasPrefix(n, "internal/sha3.ShakeSum") {
						ctors = append(ctors, strings.TrimPrefix(n, "internal/sha3."))
					}
				}
			}
		}
		sort.Strings(ctors)
		if len(ctors) == 1 && ctors[0] == ctor {
			c.ok("C15.params", construct, "the only constructor called", p.fnPos(f))
		} else if len(ctors) == 0 {
			c.ok("C15.params", construct, "not decided: the state is built without a constructor call", p.fnPos(f))
		} else {
			c.bad("C15.params", construct, fmt.Sprintf("constructors / one-shot functions called: %v: the digest is that of another function of the family (other domain-separation byte, rate or output length)", ctors), p.fnPos(f))
		}
	}
	c.tableConstInt(p, "C15.params", "xof/k12", "chunkSize", 8192)
	// K12 domain bytes: the constants passed to NewTurboShake128 / SwitchDS in xof/k12
	{
		seen := map[string]bool{}
		for f := range p.AllFuncs {
			if f.Blocks == nil || funcPkgPath(f) != circlPath+"/xof/k12" {
				continue
			}
			for _, b := range f.Blocks {
				for _, in := range b.Instrs {
					ci, ok := in.(ssa.CallInstruction)
					if !ok {
						continue
					}
					n := normName(p.staticCalleeName(ci.Common()))
					if n != "internal/sha3.NewTurboShake128" && n != "(internal/sha3.State).SwitchDS" {
						continue
					}
					args := ci.Common().Args
					if k, ok := args[len(args)-1].(*ssa.Const); ok && k.Value != nil {
						seen[fmt.Sprintf("%s(%s)", n[strings.LastIndex(n, ".")+1:], k.Value.ExactString())] = true
					} else {
						seen[n[strings.LastIndex(n, ".")+1:]+"(non-constant)"] = true
					}
				}
			}
		}
		got := strings.Join(keysOf(seen), " ")
		wantS := "NewTurboShake128(11) NewTurboShake128(7) SwitchDS(6) SwitchDS(7)"
		if got == wantS {
			c.ok("C15.params", "xof/k12 domain separation bytes", got, "")
		} else {
			c.bad("C15.params", "xof/k12 domain separation bytes", fmt.Sprintf("uses %q, specified %q", got, wantS), "")
		}
	}
	// ascon tag buffer and guard
	if f := p.Func("cipher/ascon", "Cipher", "Open"); f == nil {
		c.undecided("C15.ascon-tag", "Cipher.Open", "function not found", "")
	} else {
		var fin, cmp *ssa.Call
		for _, b := range f.Blocks {
			for _, in := range b.Instrs {
				if call, ok := in.(*ssa.Call); ok {
					switch normName(p.staticCalleeName(&call.Call)) {
					case "(cipher/ascon.Cipher).finalize":
						fin = call
					case "crypto/subtle.ConstantTimeCompare":
						cmp = call
					}
				}
			}
		}
		construct := "(*cipher/ascon.Cipher).Open: expected tag in a private buffer"
		switch {
		case fin == nil || cmp == nil:
			c.undecided("C15.ascon-tag", construct, "finalize / ConstantTimeCompare call not found", p.fnPos(f))
		default:
			tagArg := fin.Call.Args[1]
			base, _ := memRoot(tagArg)
			_, isAlloc := base.(*ssa.Alloc)
			usedInCmp := false
			for _, a := range cmp.Call.Args {
				if rb, _ := memRoot(a); rb == base {
					usedInCmp = true
				}
			}
			if isAlloc && usedInCmp {
				c.ok("C15.ascon-tag", construct, "finalize writes "+descVal(tagArg)+", a local of Open, which is one operand of the comparison", p.pos(fin.Pos()))
			} else {
				c.bad("C15.ascon-tag", construct, fmt.Sprintf("finalize writes the expected tag to %s (local=%v, compared=%v): it may alias dst / the received tag", descVal(tagArg), isAlloc, usedInCmp), p.pos(fin.Pos()))
			}
		}
		c.guard(p, "C15.ascon-tag", "rejects unless the tags compare equal", f, GuardSpec{Assumes: []Assume{calleeAssume(latInt(0), -1, "crypto/subtle.ConstantTimeCompare")}})
	}
	// expanders: RFC 9380 hashes the domain separation tag only when it is longer than 255 bytes
	for _, typ := range []string{"expanderMD", "expanderXOF"} {
		f := p.Func("expander", typ, "calcDSTPrime")
		dstIs := func(n int64) []ValAssume {
			return []ValAssume{{Name: "dst", Val: latSliceLen(n), Match: func(v ssa.Value, in *ssa.Function) bool {
				u, ok := v.(*ssa.UnOp)
				if !ok || u.Op != token.MUL || in != f {
					return false
				}
				fa, ok := u.X.(*ssa.FieldAddr)
				return ok && fieldName(fa) == "dst"
			}}}
		}
		c.reachRule(p, "C15.expander", "a 255-byte DST is used verbatim (not hashed)", f, nil, nil, dstIs(255), "expander.mustWrite", false)
		c.reachRule(p, "C15.expander", "a 256-byte DST is hashed (oversize rule)", f, nil, nil, dstIs(256), "expander.mustWrite", true)
	}
	// Ascon: decryption fails releasing nothing (the unauthenticated plaintext is not handed back with the error)
	c.noDataOnError(p, "C15.ascon-tag", p.Func("cipher/ascon", "Cipher", "Open"))
	// the sponges fill the whole buffer they are given and say so: a short count with a nil error makes
	// io.ReadFull callers (the XOF-based expander) read the "missing" tail again from further down the stream
	for _, t := range [][2]string{{"internal/sha3", "State"}} { // (KangarooTwelve forwards to it)
		c.returnRule(p, "C15.read", "Read reports the full length of the buffer it filled", p.Func(t[0], t[1], "Read"), 0, `len\(param#1\)`)
	}
	// RFC 9380, 5.3.1 / 5.3.2: abort if len_in_bytes > 65535 (its two-byte encoding would wrap and the request
	// would collide with a shorter one); nothing may be hashed for such a request
	for _, typ := range []string{"expanderMD", "expanderXOF"} {
		f := p.Func("expander", typ, "Expand")
		// (expand_message_xmd bounds ell = ceil(n / digest size) by 255; 64 bytes is the largest digest of crypto.Hash,
		// and a smaller digest only makes ell larger)
		var as []Assume
		if typ == "expanderMD" {
			as = []Assume{calleeAssume(latInt(64), -1, "invoke (hash.Hash).Size")}
		}
		c.reachRule(p, "C15.expander", "an output length of 65536 bytes is refused before anything is hashed", f, map[string]lat{"n": latInt(65536)}, as, nil, "expander.mustWrite", false)
		c.reachRule(p, "C15.expander", "an output length of 32 bytes is served", f, map[string]lat{"n": latInt(32)}, as, nil, "expander.mustWrite", true)
		if typ == "expanderMD" {
			// expand_message_xmd aborts when ell = ceil(len_in_bytes / b_in_bytes) > 255: the block counter is one
			// byte. With the largest digest (64 bytes) 255 blocks are 16320 bytes
			c.reachRule(p, "C15.expander", "16321 bytes (256 blocks of the largest digest) are refused before anything is hashed", f, map[string]lat{"n": latInt(16321)}, as, nil, "expander.mustWrite", false)
			c.reachRule(p, "C15.expander", "16320 bytes (255 blocks of the largest digest) are served", f, map[string]lat{"n": latInt(16320)}, as, nil, "expander.mustWrite", true)
		}
	}
	// the 2-way state is permuted by the 2-way routines and the 4-way state by the 4-way ones, in both arms
	for _, t := range []struct{ typ, own, other string }{{"StateX2", "2", "4"}, {"StateX4", "4", "2"}} {
		c.callCountRule(p, "C15.lanes", "the "+t.own+"-way state is permuted by the "+t.own+"-way routines in both arms", p.Func("simd/keccakf1600", t.typ, "Permute"),
			map[string]int{"simd/keccakf1600.permuteScalarX" + t.own: 1, "simd/keccakf1600.permuteSIMDx" + t.own: 1, "simd/keccakf1600.permuteScalarX" + t.other: 0, "simd/keccakf1600.permuteSIMDx" + t.other: 0})
	}
	// lanes: the turbo flag reaches the scalar permutation
	for _, n := range []string{"permuteScalarX2", "permuteScalarX4"} {
		f := p.Func("simd/keccakf1600", "", n)
		c.depRule(p, "C15.lanes", n+" passes the round-count flag to the scalar permutation", f, sinkCallArg(1, "internal/sha3.KeccakF1600"), "param:turbo")
	}
}
