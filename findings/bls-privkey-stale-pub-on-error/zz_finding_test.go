package bls_test

import (
	"bytes"
	"testing"

	"github.com/cloudflare/circl/sign/bls"
)

// A private key object whose decoding failed must not keep handing out the
// public key of the key it held before: the scalar has already been replaced.
func TestFindingStalePublicKeyAfterFailedDecode(t *testing.T) {
	sk, err := bls.KeyGen[bls.G1](bytes.Repeat([]byte{7}, 32), nil, nil)
	if err != nil {
		t.Fatal(err)
	}
	before, _ := sk.PublicKey().MarshalBinary()
	if err := sk.UnmarshalBinary(make([]byte, 32)); err == nil {
		t.Fatal("the zero scalar was accepted")
	}
	after, _ := sk.PublicKey().MarshalBinary()
	fresh := new(bls.PrivateKey[bls.G1])
	_ = fresh.UnmarshalBinary(make([]byte, 32))
	want, _ := fresh.PublicKey().MarshalBinary()
	if !bytes.Equal(after, want) {
		t.Errorf("after a failed decode the object reports the public key of its previous key (%x...), a fresh object decoding the same bytes reports %x...", after[:4], want[:4])
	}
	_ = before
}
