package main

import (
	"fmt"
	"go/token"
	"go/types"
	"sort"
	"strings"

	"golang.org/x/tools/go/ssa"
)

// valueReceiverWrites: methods with a value (non-pointer) receiver that write to the receiver's copy
// and never hand the copy out: the write is lost.
func valueReceiverWrites(p *Program, f *ssa.Function) []string {
	if f.Signature.Recv() == nil || len(f.Params) == 0 {
		return nil
	}
	recv := f.Params[0]
	if _, isPtr := recv.Type().Underlying().(*types.Pointer); isPtr {
		return nil
	}
	switch recv.Type().Underlying().(type) {
	case *types.Struct, *types.Array:
	default:
		return nil
	}
	// the cell the receiver is spilled to
	var cell *ssa.Alloc
	for _, r := range *recv.Referrers() {
		if st, ok := r.(*ssa.Store); ok && st.Val == ssa.Value(recv) {
			if a, ok := st.Addr.(*ssa.Alloc); ok {
				cell = a
			}
		}
	}
	if cell == nil {
		return nil
	}
	mod := p.Mod()
	var writes []string
	var writers []ssa.Instruction
	reads := 0
	escapes := false
	for _, b := range f.Blocks {
		for _, in := range b.Instrs {
			switch x := in.(type) {
			case *ssa.Store:
				if base, _ := memRoot(x.Addr); base == ssa.Value(cell) && x.Val != ssa.Value(recv) {
					writes = append(writes, p.pos(x.Pos()))
					writers = append(writers, in)
				}
				if base, _ := memRoot(x.Val); base == ssa.Value(cell) {
					escapes = true // the address (or a loaded copy) is stored somewhere
				}
			case *ssa.UnOp:
				if x.Op == token.MUL {
					if base, _ := memRoot(x.X); base == ssa.Value(cell) && x.Referrers() != nil && len(*x.Referrers()) > 0 {
						reads++
					}
				}
			case *ssa.Return:
				for _, v := range x.Results {
					if base, _ := memRoot(v); base == ssa.Value(cell) {
						escapes = true
					}
				}
			case ssa.CallInstruction:
				c := x.Common()
				var args []ssa.Value
				if c.IsInvoke() {
					args = append(args, c.Value)
				}
				args = append(args, c.Args...)
				for j, a := range args {
					if base, _ := memRoot(a); base != ssa.Value(cell) || !pointerLike(a.Type()) {
						continue
					}
					cal := c.StaticCallee()
					wr := writesThrough(p, cal, j, 0)
					for _, i := range externalWrites(p.staticCalleeName(c), len(args)) {
						if i == j {
							wr = true
						}
					}
					if wr {
						writes = append(writes, p.pos(x.Pos()))
						writers = append(writers, in)
					} else {
						reads++ // handed to a callee that does not write it: it is read there
					}
					_ = mod
				}
			}
		}
	}
	if escapes || reads > 0 {
		return nil // the modified copy is used afterwards (or handed out)
	}
	_ = writers
	return writes
}

// valRecvRule: a method that modifies its receiver has a pointer receiver: with a value receiver the
// operation works on a copy and its result is thrown away (the code still compiles and every call site
// type-checks).
func (c *Ctx) valRecvRule(p *Program, rule string, prefixes ...string) {
	for _, pre := range prefixes {
		var hits []string
		n := 0
		for f := range p.AllFuncs {
			if f.Blocks == nil || !sourceFunc(f) || !isCirclFunc(f) || f.Signature.Recv() == nil {
				continue
			}
			rel := strings.TrimPrefix(funcPkgPath(f), circlPath+"/")
			if !(rel == strings.TrimSuffix(pre, "/") || strings.HasPrefix(rel, strings.TrimSuffix(pre, "/")+"/")) {
				continue
			}
			n++
			if w := valueReceiverWrites(p, f); len(w) > 0 {
				hits = append(hits, fmt.Sprintf("%s writes only a copy of its receiver at %s", fname(f), strings.Join(w, ", ")))
			}
		}
		what := pre + ": no method computes into a copy of its (value) receiver that is then dropped"
		sort.Strings(hits)
		if len(hits) > 0 {
			c.bad(rule, what, strings.Join(hits, "; "), "")
		} else {
			c.ok(rule, what, fmt.Sprintf("%d methods inspected", n), "")
		}
	}
}

func init() {
	for prop, pres := range map[string][]string{"C12": {"math/", "ecc/bls12381/ff", "vdaf/prio3/arith", "group"}, "C13": {"ecc/", "group", "sign/ed25519", "sign/ed448"}} {
		prop, pres := prop, pres
		prev := registry[prop]
		registry[prop] = func(c *Ctx) {
			prev(c)
			if p := c.Prog("amd64"); p != nil {
				c.Clauses = append(c.Clauses, prop+".valrecv: no arithmetic method writes only a copy of its value receiver (a dropped pointer receiver leaves every call site compiling and the result discarded)")
				c.valRecvRule(p, prop+".valrecv", pres...)
			}
		}
	}
}

// LOSTWRITE: a function does not fill a by-value array / struct argument and then drop it.
//
// `func hedge(rnd [32]byte) error { _, err := rand.Read(rnd[:]); return err }` writes into its own copy of the
// array: the caller's rnd is untouched. The rule finds parameters of array or struct type that the function
// writes into (a store, or a callee that writes through a slice / pointer into the copy) and never reads
// afterwards in any way (no load, not returned, not handed to a reader).
func checkLostWrite(c *Ctx, p *Program, rule string, prefixes []string) {
	var fs []*ssa.Function
	for f := range p.AllFuncs {
		if f.Blocks != nil && isCirclFunc(f) && sourceFunc(f) && !strings.Contains(funcPkgPath(f), "/internal/test") && (prefixes == nil || inScope(f, prefixes)) {
			fs = append(fs, f)
		}
	}
	sort.Slice(fs, func(i, j int) bool { return fs[i].String() < fs[j].String() })
	mod := p.Mod()
	n, nbad := 0, 0
	for _, f := range fs {
		for pi, par := range f.Params {
			if pi == 0 && f.Signature.Recv() != nil {
				continue // value receivers: the valrecv rule
			}
			switch par.Type().Underlying().(type) {
			case *types.Array, *types.Struct:
			default:
				continue
			}
			// the spill slot of the parameter
			var slot *ssa.Alloc
			for _, r := range *par.Referrers() {
				if st, ok := r.(*ssa.Store); ok && st.Val == ssa.Value(par) {
					if a, ok := st.Addr.(*ssa.Alloc); ok {
						slot = a
					}
				}
			}
			if slot == nil {
				continue
			}
			n++
			rooted := func(v ssa.Value) bool {
				for i := 0; i < 32; i++ {
					switch x := v.(type) {
					case *ssa.Alloc:
						return x == slot
					case *ssa.FieldAddr:
						v = x.X
					case *ssa.IndexAddr:
						v = x.X
					case *ssa.Slice:
						v = x.X
					case *ssa.ChangeType:
						v = x.X
					case *ssa.Convert:
						v = x.X
					default:
						return false
					}
				}
				return false
			}
			writes, reads := 0, 0
			wpos := ""
			for _, b := range f.Blocks {
				for _, in := range b.Instrs {
					switch x := in.(type) {
					case *ssa.Store:
						if x.Val == ssa.Value(par) && x.Addr == ssa.Value(slot) {
							continue // the spill itself
						}
						if rooted(x.Addr) {
							writes++
							wpos = p.pos(x.Pos())
						}
						if rooted(x.Val) {
							reads++ // its address escapes
						}
					case *ssa.UnOp:
						if x.Op == token.MUL && rooted(x.X) {
							reads++
						}
					case *ssa.Return:
						for _, rv := range x.Results {
							if rooted(rv) {
								reads++
							}
						}
					case ssa.CallInstruction:
						c0 := x.Common()
						var args []ssa.Value
						if c0.IsInvoke() {
							args = append(args, c0.Value)
						}
						args = append(args, c0.Args...)
						wset := map[int]bool{}
						for _, i := range externalWrites(p.staticCalleeName(c0), len(args)) {
							wset[i] = true
						}
						if cal := c0.StaticCallee(); cal != nil && cal.Blocks != nil {
							for _, mw := range mod.of(cal) {
								var i int
								if _, err := fmt.Sscanf(mw.Root, "param#%d", &i); err == nil {
									wset[i] = true
								}
							}
						}
						for i, a := range args {
							if !rooted(a) {
								continue
							}
							if wset[i] {
								writes++
								wpos = p.pos(in.Pos())
							} else {
								reads++
							}
						}
					case *ssa.MakeClosure:
						for _, bv := range x.Bindings {
							if rooted(bv) {
								reads++
							}
						}
					}
				}
			}
			if writes > 0 && reads == 0 {
				nbad++
				c.bad(rule, fmt.Sprintf("%s: what it writes into its argument %s reaches the caller or is used", fname(f), par.Name()),
					fmt.Sprintf("%s is passed by value (%s): the function writes into its own copy (%s) and never reads it: the caller's value is unchanged", par.Name(), par.Type(), wpos), p.fnPos(f))
			}
		}
	}
	c.count("byvalue_aggregate_params", n)
	if nbad == 0 {
		c.ok(rule, "no function fills a by-value array / struct argument and drops it", fmt.Sprintf("%d address-taken by-value aggregate parameters inspected", n), "")
	}
}

func init() {
	for prop, pres := range map[string][]string{"C02": {"sign/"}, "C04": {"sign/dilithium", "sign/mldsa", "sign/internal/dilithium"}, "C11": nil} {
		prop, pres := prop, pres
		prev := registry[prop]
		registry[prop] = func(c *Ctx) {
			prev(c)
			if p := c.Prog("amd64"); p != nil {
				c.Clauses = append(c.Clauses, prop+".lostwrite: no function fills a by-value array / struct argument and then drops it (the caller's value would stay unchanged)")
				checkLostWrite(c, p, prop+".lostwrite", pres)
			}
		}
	}
}
