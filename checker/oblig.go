package main

import (
	"bufio"
	"encoding/json"
	"fmt"
	"os"
	"path/filepath"
	"sort"
	"strings"
	"time"
)

// Verdicts.
const (
	Discharged = "discharged"
	Violated   = "violated"
	Known      = "known-finding"
	Undecided  = "undecided"
)

// Obligation is one decided instance of a rule: (property, rule, construct).
type Obligation struct {
	Rule      string `json:"rule"`
	Construct string `json:"construct"`
	Verdict   string `json:"verdict"`
	Witness   string `json:"witness,omitempty"`
	Pos       string `json:"pos,omitempty"`
	Config    string `json:"config,omitempty"`
}

func (o Obligation) key() string { return o.Rule + " " + o.Construct }

// Ctx carries the state of one property check.
type Ctx struct {
	Prop     string
	Tier     string
	Repo     string
	Verif    string
	progs    map[string]*Program
	Obls     []Obligation
	Notes    []string
	Clauses  []string // decided clauses (for the explanation)
	NotDec   []string // not decided
	Trusted  []string
	Counters map[string]int
	known    map[string]string // key -> description
	cur      string            // current config name for obligations
	override string            // thorough tier: configuration analysed in place of amd64
}

func (c *Ctx) Prog(cfg string) *Program {
	if c.override != "" && cfg == "amd64" {
		cfg = c.override
	}
	if p, ok := c.progs[cfg]; ok {
		return p
	}
	t0 := time.Now()
	p, err := loadProgram(c.Repo, configs[cfg])
	if err != nil {
		fmt.Printf("LOAD-FAILURE config=%s: %v\n", cfg, err)
		c.add(Obligation{Rule: c.Prop + ".load", Construct: "config " + cfg, Verdict: Undecided, Witness: err.Error()})
		c.progs[cfg] = nil
		return nil
	}
	c.progs[cfg] = p
	c.Counters["packages_"+cfg] = len(p.Circl)
	c.Counters["functions_"+cfg] = p.NFuncs
	v := Discharged
	w := fmt.Sprintf("%d circl packages, %d circl functions with bodies, 0 type errors, %.1fs", len(p.Circl), p.NFuncs, time.Since(t0).Seconds())
	if len(p.Circl) < 110 || p.NFuncs < 3000 {
		v = Undecided
		w += " — below floor (110 packages / 3000 functions)"
	}
	c.add(Obligation{Rule: c.Prop + ".load", Construct: "config " + cfg, Verdict: v, Witness: w})
	return p
}

func (c *Ctx) add(o Obligation) {
	if o.Config == "" {
		o.Config = c.cur
	}
	if o.Verdict == Violated || o.Verdict == Undecided {
		if d, ok := c.known[c.Prop+" "+o.key()]; ok {
			o.Verdict = Known
			o.Witness = strings.TrimSpace(o.Witness + " [known finding: " + d + "]")
		}
	}
	c.Obls = append(c.Obls, o)
}

func (c *Ctx) ok(rule, construct, witness, pos string) {
	c.add(Obligation{Rule: rule, Construct: construct, Verdict: Discharged, Witness: witness, Pos: pos})
}
func (c *Ctx) bad(rule, construct, witness, pos string) {
	c.add(Obligation{Rule: rule, Construct: construct, Verdict: Violated, Witness: witness, Pos: pos})
}
func (c *Ctx) undecided(rule, construct, witness, pos string) {
	c.add(Obligation{Rule: rule, Construct: construct, Verdict: Undecided, Witness: witness, Pos: pos})
}
func (c *Ctx) count(k string, n int) { c.Counters[k] += n }

// loadKnown reads /verif/known-findings.txt. Lines:
//
//	finding: property=C16 rule=<rule> construct=<construct> :: <what fails>
//	fixed: property=<id> <commit> <what failed>        (suppresses nothing)
func loadKnown(path string) (map[string]string, error) {
	m := map[string]string{}
	f, err := os.Open(path)
	if err != nil {
		if os.IsNotExist(err) {
			return m, nil
		}
		return nil, err
	}
	defer f.Close()
	sc := bufio.NewScanner(f)
	for sc.Scan() {
		ln := strings.TrimSpace(sc.Text())
		if !strings.HasPrefix(ln, "finding:") {
			continue
		}
		body := strings.TrimSpace(strings.TrimPrefix(ln, "finding:"))
		desc := ""
		if i := strings.Index(body, " :: "); i >= 0 {
			desc = body[i+4:]
			body = body[:i]
		}
		var prop, rule, construct string
		if i := strings.Index(body, " construct="); i >= 0 {
			construct = body[i+len(" construct="):]
			body = body[:i]
		}
		for _, f := range strings.Fields(body) {
			if strings.HasPrefix(f, "property=") {
				prop = strings.TrimPrefix(f, "property=")
			}
			if strings.HasPrefix(f, "rule=") {
				rule = strings.TrimPrefix(f, "rule=")
			}
		}
		if prop != "" && rule != "" && construct != "" {
			m[prop+" "+rule+" "+construct] = desc
		}
	}
	return m, sc.Err()
}

type evidence struct {
	PropertyID  string                 `json:"property_id"`
	Tier        string                 `json:"tier"`
	Seed        int                    `json:"seed"`
	Level       string                 `json:"level"`
	Coverage    map[string]interface{} `json:"coverage"`
	Assumptions []string               `json:"assumptions"`
	WallS       float64                `json:"wall_s"`
	Violations  int                    `json:"violations"`
}

// finish writes evidence + replay, prints the report and returns the exit code.
func (c *Ctx) finish(seed int, start time.Time, evidencePath string) int {
	sort.SliceStable(c.Obls, func(i, j int) bool {
		if c.Obls[i].Rule != c.Obls[j].Rule {
			return c.Obls[i].Rule < c.Obls[j].Rule
		}
		return c.Obls[i].Construct < c.Obls[j].Construct
	})
	var nOK, nBad, nKnown, nUndec int
	distinct := map[string]bool{}
	for _, o := range c.Obls {
		distinct[o.key()] = true
		switch o.Verdict {
		case Discharged:
			nOK++
		case Violated:
			nBad++
		case Known:
			nKnown++
		default:
			nUndec++
		}
	}
	fmt.Printf("== %s tier=%s: %d obligations: %d discharged, %d violated, %d known-finding, %d undecided\n",
		c.Prop, c.Tier, len(c.Obls), nOK, nBad, nKnown, nUndec)
	rules := map[string][2]int{}
	for _, o := range c.Obls {
		r := rules[o.Rule]
		r[0]++
		if o.Verdict == Discharged {
			r[1]++
		}
		rules[o.Rule] = r
	}
	var rk []string
	for k := range rules {
		rk = append(rk, k)
	}
	sort.Strings(rk)
	for _, k := range rk {
		fmt.Printf("   rule %-22s %3d obligations, %3d discharged\n", k, rules[k][0], rules[k][1])
	}
	if len(c.Obls) == 0 {
		fmt.Printf("   no obligations generated: vacuous check is a failure\n")
		nUndec++
	}
	var failing []Obligation
	seenKnown := map[string]bool{}
	for _, o := range c.Obls {
		switch o.Verdict {
		case Known:
			if !seenKnown[o.key()] {
				fmt.Printf("KNOWN-FINDING: property=%s %s %s (%s) %s\n", c.Prop, o.Rule, o.Construct, o.Pos, o.Witness)
				seenKnown[o.key()] = true
			}
		case Violated, Undecided:
			fmt.Printf("%s: %s: %s: %s: %s [%s]\n", o.Pos, o.Verdict, o.Rule, o.Construct, o.Witness, o.Config)
			failing = append(failing, o)
		}
	}
	samples := []interface{}{}
	step := 1
	if len(c.Obls) > 40 {
		step = len(c.Obls) / 40
	}
	for i := 0; i < len(c.Obls); i += step {
		samples = append(samples, c.Obls[i])
	}
	for _, o := range failing {
		samples = append(samples, o)
	}
	expl := "Static analysis of /repo's current working tree (go/packages + go/ssa, never executing circl code). " +
		"DECIDED (necessary-condition clauses only): " + strings.Join(uniqStrings(c.Clauses), "; ") +
		". NOT DECIDED: " + strings.Join(uniqStrings(c.NotDec), "; ") + "."
	cov := map[string]interface{}{
		"explanation":         expl,
		"obligations":         len(c.Obls),
		"discharged":          nOK,
		"known_findings":      nKnown,
		"undecided":           nUndec,
		"evaluations":         len(c.Obls),
		"distinct_nontrivial": len(distinct),
		"rule":                "one obligation per (rule, construct[, build configuration]); distinct = distinct (rule, construct) keys; every obligation is non-trivial in that its rule located at least one concrete construct in the loaded program",
		"samples":             samples,
		"rules":               rules,
		"counters":            c.Counters,
		"notes":               c.Notes,
		"checker_cmd":         strings.Join(os.Args, " "),
		"trusted_base":        append([]string{"go/types, go/ssa (x/tools v0.29.0)", "Go standard library and golang.org/x/crypto callee summaries"}, c.Trusted...),
	}
	ev := evidence{PropertyID: c.Prop, Tier: c.Tier, Seed: seed, Level: "other", Coverage: cov,
		Assumptions: []string{
			"clauses decided are necessary conditions of the property, not the property itself",
			"assembly (*.s), unsafe and reflection are opaque to the analysis",
			"standard library / x/crypto / go-ristretto callees behave as summarised",
		},
		WallS: time.Since(start).Seconds(), Violations: nBad + nUndec}
	if err := os.MkdirAll(filepath.Dir(evidencePath), 0o755); err == nil {
		b, _ := json.MarshalIndent(ev, "", " ")
		if err := os.WriteFile(evidencePath, append(b, '\n'), 0o644); err != nil {
			fmt.Printf("cannot write evidence: %v\n", err)
			return 2
		}
	}
	if len(failing) > 0 {
		rp := filepath.Join(filepath.Dir(evidencePath), "replay", c.Prop+".json")
		os.MkdirAll(filepath.Dir(rp), 0o755)
		b, _ := json.MarshalIndent(map[string]interface{}{
			"property": c.Prop, "tier": c.Tier,
			"replay_cmd": fmt.Sprintf("bin/circlcheck -property %s -tier %s", c.Prop, c.Tier),
			"failing":    failing,
		}, "", " ")
		os.WriteFile(rp, append(b, '\n'), 0o644)
		fmt.Printf("VIOLATION property=%s replay=%s\n", c.Prop, rp)
		return 1
	}
	fmt.Printf("OK property=%s (%.1fs)\n", c.Prop, time.Since(start).Seconds())
	return 0
}

func uniqStrings(in []string) []string {
	seen := map[string]bool{}
	var out []string
	for _, s := range in {
		if !seen[s] {
			seen[s] = true
			out = append(out, s)
		}
	}
	return out
}
