package main

import (
	"fmt"
	"go/token"
	"regexp"
	"sort"
	"strings"

	"golang.org/x/tools/go/ssa"
)

func init() { registry["C08"] = checkC08 }

// lenOfField matches `len(<load of field name>)`.
func lenOfField(name string) func(v ssa.Value, in *ssa.Function) bool {
	return func(v ssa.Value, _ *ssa.Function) bool {
		c, ok := v.(*ssa.Call)
		if !ok {
			return false
		}
		b, ok := c.Call.Value.(*ssa.Builtin)
		if !ok || b.Name() != "len" {
			return false
		}
		u, ok := c.Call.Args[0].(*ssa.UnOp)
		if !ok || u.Op != token.MUL {
			return false
		}
		fa, ok := u.X.(*ssa.FieldAddr)
		return ok && fieldName(fa) == name
	}
}

// wholeRangeIndex: the description of an index that starts at 0 and is incremented by one (range loop or
// counting loop).
var wholeRangeIndex = regexp.MustCompile(`^\(?phi\((\(↺\+1\)\|-1|-1\|\(↺\+1\))\)\+1\)?$|^phi\((0\|\(↺\+1\)|\(↺\+1\)\|0)\)$`)

func checkC08(c *Ctx) {
	p := c.Prog("amd64")
	if p == nil {
		return
	}
	c.Clauses = append(c.Clauses,
		"C08.writers: the sequence number, base nonce, key and exporter secret of an HPKE context are written only by the designated functions (increment / key schedule / context unmarshalling), each decoded field exactly once",
		"C08.nonce: the AEAD nonce is the result of calcNonce, whose every byte is base_nonce[i] XOR seq[i]",
		"C08.seal/open: a ciphertext or plaintext is released only if increment succeeded; a failed AEAD open never reaches increment",
		"C08.overflow: when the all-ones test fires, increment fails before any store to the sequence number",
		"C08.codec: context marshal and unmarshal agree on the field list; role bytes agree; unmarshal accepts only if all four lengths equal Nh/Nk/Nn/Nn")
	c.NotDec = append(c.NotDec, "carry arithmetic of the counter increment", "behaviour over concrete histories (only the per-operation invariants are decided)")

	// ---- writers ----
	ksF, umF := "(hpke.state).keySchedule", "hpke.unmarshalContext"
	allowed := map[string][]string{
		"sequenceNumber": {"(*hpke.encdecContext).increment", ksF, umF},
		"baseNonce":      {ksF, umF},
		"key":            {ksF, umF},
		"exporterSecret": {ksF, umF},
		"nonce":          {"(*hpke.encdecContext).calcNonce", ksF, umF},
	}
	var fields []string
	for f := range allowed {
		fields = append(fields, f)
	}
	sort.Strings(fields)
	for _, field := range fields {
		ws := p.fieldWriters("hpke", "encdecContext", field)
		c.count("field_write_sites", len(ws))
		perFn := map[string]int{}
		var bad []string
		for _, w := range ws {
			kind := w.Kind
			if i := strings.Index(kind, ":"); i >= 0 {
				kind = kind[:i]
			}
			ok := false
			for _, fn := range allowed[field] {
				if fname(w.Fn) == fn {
					ok = true
				}
			}
			if !ok {
				bad = append(bad, fmt.Sprintf("%s (%s at %s)", fname(w.Fn), w.Kind, p.pos(w.Pos)))
			}
			perFn[fname(w.Fn)+" "+kind]++
		}
		what := "hpke.encdecContext." + field + ": only designated writers"
		if len(ws) == 0 {
			c.undecided("C08.writers", what, "no writer found at all (anchor lost)", "")
		} else if len(bad) > 0 {
			c.bad("C08.writers", what, "unexpected writer(s): "+strings.Join(bad, "; "), "")
		} else {
			c.ok("C08.writers", what, fmt.Sprintf("%d write site(s), all in designated functions: %v", len(ws), perFn), "")
		}
		if field != "nonce" {
			n := perFn["hpke.unmarshalContext escape-addr"] + perFn["hpke.unmarshalContext assign"] + perFn["hpke.unmarshalContext copy"] + perFn["hpke.unmarshalContext element"]
			what := "hpke.unmarshalContext: field " + field + " is bound exactly once, by the reader"
			if n == 1 && perFn["hpke.unmarshalContext escape-addr"] == 1 {
				w := "one write (through the cryptobyte reader)"
				if k := perFn["hpke.unmarshalContext assign-copy-of-itself"]; k > 0 {
					w += fmt.Sprintf(", then re-bound %d time(s) to a private copy of its own contents", k)
				}
				c.ok("C08.writers", what, w, "")
			} else {
				c.bad("C08.writers", what, fmt.Sprintf("%d writes in unmarshalContext (decoded value may be overwritten)", n), "")
			}
		}
	}

	// ---- nonce ----
	sealF, openF := p.Func("hpke", "sealContext", "Seal"), p.Func("hpke", "openContext", "Open")
	cn := `call:\(\*hpke\.encdecContext\)\.calcNonce`
	c.callArgRule(p, "C08.nonce", "Seal uses nonce = calcNonce()", sealF, "invoke (crypto/cipher.AEAD).Seal", "", map[int]string{2: cn, 3: `param#1`, 4: `param#2`})
	c.callArgRule(p, "C08.nonce", "Open uses nonce = calcNonce()", openF, "invoke (crypto/cipher.AEAD).Open", "", map[int]string{2: cn, 3: `param#1`, 4: `param#2`})
	if f := p.Func("hpke", "encdecContext", "calcNonce"); f == nil {
		c.undecided("C08.nonce", "calcNonce", "anchor does not resolve", "")
	} else {
		n, okAll := 0, true
		var why []string
		for _, b := range f.Blocks {
			for _, in := range b.Instrs {
				st, ok := in.(*ssa.Store)
				if !ok {
					continue
				}
				ia, ok := st.Addr.(*ssa.IndexAddr)
				if !ok {
					continue
				}
				base := descVal(ia.X)
				if base != "param#0.nonce" {
					continue
				}
				n++
				idx := descVal(ia.Index)
				// every octet: the index runs over the whole base nonce from 0 (a range loop, or a counter from 0)
				if !wholeRangeIndex.MatchString(idx) {
					okAll = false
					why = append(why, fmt.Sprintf("%s: the index %s does not start at 0: the leading octets of the nonce are not computed", p.pos(st.Pos()), idx))
				}
				v := descVal(st.Val)
				a, b2 := "param#0.baseNonce["+idx+"]", "param#0.sequenceNumber["+idx+"]"
				if v != "("+a+"^"+b2+")" && v != "("+b2+"^"+a+")" {
					okAll = false
					why = append(why, fmt.Sprintf("%s: nonce[%s] = %s", p.pos(st.Pos()), idx, v))
				}
			}
		}
		switch {
		case n == 0:
			c.bad("C08.nonce", fname(f)+": nonce[i] = base_nonce[i] XOR seq[i]", "no store into c.nonce found", p.fnPos(f))
		case !okAll:
			c.bad("C08.nonce", fname(f)+": nonce[i] = base_nonce[i] XOR seq[i]", strings.Join(why, "; "), p.fnPos(f))
		default:
			c.ok("C08.nonce", fname(f)+": nonce[i] = base_nonce[i] XOR seq[i]", fmt.Sprintf("%d store(s), same index on all three operands", n), p.fnPos(f))
		}
		c.returnRule(p, "C08.nonce", "calcNonce returns the nonce buffer", f, 0, `param#0\.nonce`)
	}

	// ---- seal / open ----
	// the carry loop reaches the most significant byte: for a counter of one byte the loop body runs (a bound
	// of i > 0 instead of i >= 0 never touches byte 0 and reports an overflow 2^8 steps early for every length)
	if incF := p.Func("hpke", "encdecContext", "increment"); incF == nil {
		c.undecided("C08.overflow", "increment of a one-byte counter can succeed", "anchor does not resolve", "")
	} else {
		construct := fname(incF) + ": the carry loop covers the most significant byte (a one-byte counter can be incremented)"
		seqLoad := func(v ssa.Value, _ *ssa.Function) bool {
			u, ok := v.(*ssa.UnOp)
			if !ok || u.Op != token.MUL {
				return false
			}
			fa, ok := u.X.(*ssa.FieldAddr)
			return ok && fieldName(fa) == "sequenceNumber"
		}
		r := runGuard(&GuardQuery{P: p, Root: incF, ValAssumes: []ValAssume{{Name: "len(sequenceNumber) = 1", Match: seqLoad, Val: latSliceLen(1)}}})
		succ := succAuto(incF)
		ok, stores := false, 0
		for _, ri := range r.Returns {
			if succ.may(ri.Vals) {
				ok = true
			}
		}
		rs := runGuard(&GuardQuery{P: p, Root: incF, ValAssumes: []ValAssume{{Name: "len(sequenceNumber) = 1", Match: seqLoad, Val: latSliceLen(1)}},
			ObserveStore: func(in *ssa.Function, st *ssa.Store, _ func(ssa.Value) lat) {
				if in == incF {
					if _, isIdx := st.Addr.(*ssa.IndexAddr); isIdx {
						stores++
					}
				}
			}})
		_ = rs
		switch {
		case len(r.Sites["len(sequenceNumber) = 1"]) == 0:
			c.undecided("C08.overflow", construct, "the sequence number is not read in the function", p.fnPos(incF))
		case !ok:
			c.bad("C08.overflow", construct, "with a one-byte sequence number no exit reports success: the loop never reaches index 0", p.fnPos(incF))
		case stores == 0:
			c.bad("C08.overflow", construct, "with a one-byte sequence number no store into the counter is executable: the loop never reaches index 0", p.fnPos(incF))
		default:
			c.ok("C08.overflow", construct, "a success exit and a store into the counter are executable for length 1", p.fnPos(incF))
		}
	}
	inc := "(*hpke.encdecContext).increment"
	c.guard(p, "C08.seal", "ciphertext released only if increment succeeded", sealF, GuardSpec{Assumes: []Assume{calleeAssume(latNonNil, -1, inc)}})
	c.guard(p, "C08.open", "plaintext released only if increment succeeded", openF, GuardSpec{Assumes: []Assume{calleeAssume(latNonNil, -1, inc)}})
	c.guard(p, "C08.open", "plaintext released only if AEAD.Open succeeded", openF, GuardSpec{Assumes: []Assume{calleeAssume(latNonNil, 1, "invoke (crypto/cipher.AEAD).Open")}})
	c.notReached(p, "C08.open", "a failed AEAD open leaves the sequence number unchanged (increment not reachable)", openF,
		[]Assume{calleeAssume(latNonNil, 1, "invoke (crypto/cipher.AEAD).Open")}, inc)
	for _, f := range []*ssa.Function{sealF, openF} {
		c.reachCountRule(p, "C08.seal", "exactly one increment and one nonce computation per operation", f, map[string]int{inc: 1, "(*hpke.encdecContext).calcNonce": 1})
	}
	// when the operation fails (AEAD failure, counter overflow) no ciphertext or plaintext is released:
	// every exit that may carry an error returns a nil buffer
	for _, f := range []*ssa.Function{sealF, openF} {
		rule := "C08.open"
		if f == sealF {
			rule = "C08.seal"
		}
		c.noDataOnError(p, rule, f)
	}
	// a ciphertext presented out of order (a failed open) must still be openable in its turn: the operation
	// does not write the caller's ciphertext, plaintext or aad storage (decrypting in place would)
	for _, f := range []*ssa.Function{sealF, openF} {
		if f == nil {
			continue
		}
		var bad []string
		for _, w := range p.Mod().of(f) {
			var i int
			if _, err := fmt.Sscanf(w.Root, "param#%d", &i); err == nil && i >= 1 {
				bad = append(bad, fmt.Sprintf("%s written at %s (%s)", f.Params[i].Name(), p.pos(w.Pos), w.Via))
			}
		}
		rule := "C08.open"
		if f == sealF {
			rule = "C08.seal"
		}
		if len(bad) > 0 {
			sort.Strings(bad)
			c.bad(rule, fname(f)+": the caller's buffers are not written", strings.Join(bad, "; "), p.fnPos(f))
		} else {
			c.ok(rule, fname(f)+": the caller's buffers are not written", "mod-set contains no non-receiver parameter (AEAD destination is not the input)", p.fnPos(f))
		}
	}

	// ---- overflow ----
	incF := p.Func("hpke", "encdecContext", "increment")
	if incF == nil {
		c.undecided("C08.overflow", "increment", "anchor does not resolve", "")
	} else {
		allOnes := BinAssume{Name: "x == 0xFF (all-ones test)", Val: latTrue, Match: func(b *ssa.BinOp, in *ssa.Function) bool {
			if in != incF || b.Op != token.EQL {
				return false
			}
			for _, o := range []ssa.Value{b.X, b.Y} {
				if k, ok := o.(*ssa.Const); ok && k.Value != nil && k.Value.ExactString() == "255" {
					return true
				}
			}
			return false
		}}
		q := &GuardQuery{P: p, Root: incF, BinAssumes: []BinAssume{allOnes}}
		stores := 0
		q.ObserveStore = func(in *ssa.Function, st *ssa.Store, _ func(ssa.Value) lat) {
			if ia, ok := st.Addr.(*ssa.IndexAddr); ok && in == incF && descVal(ia.X) == "param#0.sequenceNumber" {
				stores++
			}
		}
		r := runGuard(q)
		okRet := len(r.Returns) > 0
		for _, ri := range r.Returns {
			if ri.Vals[0].mayBeNil() {
				okRet = false
			}
		}
		what := fname(incF) + ": at the maximum the operation fails and the counter is untouched"
		switch {
		case len(r.Sites[allOnes.Name]) == 0:
			c.bad("C08.overflow", what, "no all-ones (== 0xFF) test found", p.fnPos(incF))
		case !okRet:
			c.bad("C08.overflow", what, "a nil error can be returned although the all-ones test fired", p.fnPos(incF))
		case stores > 0:
			c.bad("C08.overflow", what, fmt.Sprintf("%d store(s) to the sequence number reachable after the all-ones test fired", stores), p.fnPos(incF))
		default:
			c.ok("C08.overflow", what, "only error exits, no store to the sequence number reachable", p.fnPos(incF))
		}
	}

	// ---- codec ----
	um := p.Func("hpke", "", "unmarshalContext")
	for _, fld := range []string{"exporterSecret", "key", "baseNonce", "sequenceNumber"} {
		c.guard(p, "C08.codec", "restored context requires len("+fld+") to equal its suite length", um,
			GuardSpec{ValAssumes: []ValAssume{{Name: "len(c." + fld + ")", Match: lenOfField(fld), Val: latBigInt}}})
	}
	c.guard(p, "C08.codec", "restored context requires a valid suite", um, GuardSpec{Assumes: []Assume{calleeAssume(latFalse, -1, "(hpke.Suite).isValid")}})
	wr := codecWriterOps(p, p.Func("hpke", "encdecContext", "marshal"))
	rd := codecReaderOps(p, um)
	if len(wr) < 7 {
		c.undecided("C08.codec", "marshal/unmarshalContext field lists", fmt.Sprintf("only %d writer operations recognised: %v", len(wr), wr), "")
	} else {
		c.tableEq("C08.codec", "hpke marshal vs unmarshalContext: same fields, widths and order", strings.Join(rd, " "), strings.Join(wr, " "), "")
	}
	// role bytes
	for _, r := range []struct{ typ, un, role string }{{"sealContext", "UnmarshalSealer", "0"}, {"openContext", "UnmarshalOpener", "1"}} {
		c.returnRule(p, "C08.codec", "role byte "+r.role+" prefixed", p.Func("hpke", r.typ, "MarshalBinary"), 0, `concat\("\\x0`+r.role+`" ‖ call:\(\*hpke\.encdecContext\)\.marshal#0\)`)
		// a marshalled context restores whatever its sequence number is: the only reasons to refuse are the
		// role byte and a malformed body (a further test refuses a live context its original would go on using)
		c.rejectReasonsRule(p, "C08.codec", reasonSpec{pkg: "hpke", name: r.un, why: "role byte, well-formed body",
			callees: []string{"hpke.unmarshalContext"}, conds: []string{`param#0\[0\] != ` + r.role}})
		f := p.Func("hpke", "", r.un)
		// role mismatch rejected: raw[0] compared with the role constant
		c.guard(p, "C08.codec", "wrong role byte rejected", f, GuardSpec{BinAssumes: []BinAssume{{Name: "raw[0] != role", Val: latTrue, Match: func(b *ssa.BinOp, in *ssa.Function) bool {
			if in != f || b.Op != token.NEQ {
				return false
			}
			k, ok := b.Y.(*ssa.Const)
			return ok && k.Value != nil && k.Value.ExactString() == r.role && strings.HasPrefix(descVal(b.X), "param#0[")
		}}}})
		c.guard(p, "C08.codec", "context must parse", f, GuardSpec{Assumes: []Assume{calleeAssume(latNonNil, 1, "hpke.unmarshalContext")}})
	}
}

// codecWriterOps: ordered cryptobyte.Builder operations of a marshal function, as "<kind>:<field>".
func codecWriterOps(p *Program, f *ssa.Function) []string {
	if f == nil {
		return nil
	}
	var out []string
	for _, b := range f.DomPreorder() {
		for _, in := range b.Instrs {
			ci, ok := in.(ssa.CallInstruction)
			if !ok {
				continue
			}
			name := p.staticCalleeName(ci.Common())
			args := ci.Common().Args
			switch {
			case strings.HasSuffix(name, "Builder).AddUint16") && len(args) == 2:
				out = append(out, "u16:"+lastField(descVal(args[1])))
			case strings.HasSuffix(name, "Builder).AddUint8") && len(args) == 2:
				out = append(out, "u8:"+lastField(descVal(args[1])))
			case strings.HasSuffix(name, "Builder).AddUint8LengthPrefixed") && len(args) == 2:
				inner := "?"
				cl := args[1]
				if ct, ok := cl.(*ssa.ChangeType); ok {
					cl = ct.X
				}
				if mc, ok := cl.(*ssa.MakeClosure); ok {
					if fn, ok := mc.Fn.(*ssa.Function); ok {
						for _, bb := range fn.Blocks {
							for _, ii := range bb.Instrs {
								if c2, ok := ii.(ssa.CallInstruction); ok && strings.HasSuffix(p.staticCalleeName(c2.Common()), "Builder).AddBytes") {
									inner = lastField(descVal(c2.Common().Args[1]))
								}
							}
						}
					}
				}
				out = append(out, "u8lp:"+inner)
			case strings.HasSuffix(name, "Builder).AddUint16LengthPrefixed"):
				out = append(out, "u16lp:?")
			case strings.HasSuffix(name, "Builder).AddBytes") && len(args) == 2:
				out = append(out, "bytes:"+lastField(descVal(args[1])))
			}
		}
	}
	return out
}

// codecReaderOps: ordered cryptobyte.String operations of an unmarshal function.
func codecReaderOps(p *Program, f *ssa.Function) []string {
	if f == nil {
		return nil
	}
	var out []string
	pending := ""
	rpo := rpoOrder(f)
	for _, b := range rpo {
		for _, in := range b.Instrs {
			ci, ok := in.(ssa.CallInstruction)
			if !ok {
				continue
			}
			name := p.staticCalleeName(ci.Common())
			args := ci.Common().Args
			switch {
			case strings.HasSuffix(name, "String).ReadUint16") && len(args) == 2:
				out = append(out, "u16:"+lastField(descVal(args[1])))
			case strings.HasSuffix(name, "String).ReadUint8") && len(args) == 2:
				out = append(out, "u8:"+lastField(descVal(args[1])))
			case strings.HasSuffix(name, "String).ReadUint8LengthPrefixed"):
				pending = "u8lp:"
			case strings.HasSuffix(name, "String).ReadUint16LengthPrefixed"):
				pending = "u16lp:"
			case strings.HasSuffix(name, "String).ReadBytes") && len(args) == 3:
				k := pending
				if k == "" {
					k = "bytes:"
				}
				out = append(out, k+lastField(descVal(args[1])))
				pending = ""
			}
		}
	}
	return out
}

func lastField(d string) string {
	d = strings.TrimPrefix(d, "&")
	if i := strings.LastIndex(d, "."); i >= 0 {
		return d[i+1:]
	}
	return d
}

func rpoOrder(fn *ssa.Function) []*ssa.BasicBlock {
	var post []*ssa.BasicBlock
	seen := map[*ssa.BasicBlock]bool{}
	var dfs func(b *ssa.BasicBlock)
	dfs = func(b *ssa.BasicBlock) {
		seen[b] = true
		for _, s := range b.Succs {
			if !seen[s] {
				dfs(s)
			}
		}
		post = append(post, b)
	}
	if len(fn.Blocks) > 0 {
		dfs(fn.Blocks[0])
	}
	for i, j := 0, len(post)-1; i < j; i, j = i+1, j-1 {
		post[i], post[j] = post[j], post[i]
	}
	return post
}
