package bls12381_test

// Demonstrates: G1/G2.SetBytes accept over-long encodings (C09: the accepted input does not
// re-serialise to the bytes parsed; C02: BLS verification accepts signature||junk) and panic
// on a 48/96-byte "uncompressed infinity" encoding (C10).
// Place in /repo/ecc/bls12381 and run: go test -run TestFindingSetBytesLength ./ecc/bls12381/

import (
	"testing"

	"github.com/cloudflare/circl/ecc/bls12381"
)

func TestFindingSetBytesLength(t *testing.T) {
	g1 := bls12381.G1Generator()
	for _, enc := range [][]byte{g1.BytesCompressed(), g1.Bytes()} {
		var p bls12381.G1
		if err := p.SetBytes(enc); err != nil {
			t.Fatal(err)
		}
		if err := p.SetBytes(append(append([]byte{}, enc...), 1, 2, 3)); err == nil {
			t.Errorf("G1: %d-byte encoding with 3 appended bytes accepted", len(enc))
		}
	}
	g2 := bls12381.G2Generator()
	for _, enc := range [][]byte{g2.BytesCompressed(), g2.Bytes()} {
		var p bls12381.G2
		if err := p.SetBytes(append(append([]byte{}, enc...), 1, 2, 3)); err == nil {
			t.Errorf("G2: %d-byte encoding with 3 appended bytes accepted", len(enc))
		}
	}
	func() {
		defer func() {
			if r := recover(); r != nil {
				t.Errorf("G1.SetBytes panics on 48-byte uncompressed-infinity input: %v", r)
			}
		}()
		b := make([]byte, bls12381.G1SizeCompressed)
		b[0] = 0x40
		var p bls12381.G1
		if err := p.SetBytes(b); err == nil {
			t.Errorf("G1: truncated uncompressed infinity accepted")
		}
	}()
	func() {
		defer func() {
			if r := recover(); r != nil {
				t.Errorf("G2.SetBytes panics on 96-byte uncompressed-infinity input: %v", r)
			}
		}()
		b := make([]byte, bls12381.G2SizeCompressed)
		b[0] = 0x40
		var p bls12381.G2
		if err := p.SetBytes(b); err == nil {
			t.Errorf("G2: truncated uncompressed infinity accepted")
		}
	}()
}
