package tkn

// Demonstration (C10): a policy read from a ciphertext may list more input wires than its formula has
// (a formula with n gates has n+1 inputs). Formula.satisfaction indexes an array of 2n+1 entries with
// the positions of the matched wires, so CouldDecrypt / Decrypt panic (index out of range) on a
// ciphertext whose policy has, e.g., two wires and no gate, for any key holding both attributes.
//
// Copy to abe/cpabe/tkn20/internal/tkn/ and run: go test -run TestDemoPolicyInputsVsGates .

import "testing"

func TestDemoPolicyInputsVsGates(t *testing.T) {
	pol := &Policy{
		Inputs: []Wire{{"a", "", ToScalar(1), true}, {"b", "", ToScalar(2), true}},
		F:      Formula{Gates: []Gate{}},
	}
	raw, err := pol.MarshalBinary()
	if err != nil {
		t.Fatal(err)
	}
	got := &Policy{}
	if err := got.UnmarshalBinary(raw); err != nil {
		t.Logf("policy rejected at decoding: %v", err)
		return
	}
	attrs := &Attributes{"a": {Value: ToScalar(1)}, "b": {Value: ToScalar(2)}}
	defer func() {
		if r := recover(); r != nil {
			t.Errorf("Satisfaction panicked on a decoded policy with more wires than its formula has inputs: %v", r)
		}
	}()
	if _, err := got.Satisfaction(attrs); err == nil {
		t.Errorf("inconsistent policy accepted")
	}
}
