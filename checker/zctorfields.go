package main

import (
	"fmt"
	"go/token"
	"go/types"
	"sort"
	"strings"

	"golang.org/x/tools/go/ssa"
)

// CTORFIELDS: a pointer or interface field that a method of the type uses without a nil test is set by every
// composite literal that builds the type.
//
// `func (k *privKey) MarshalBinary() { n := k.scheme.PrivateKeySize() ... }` needs scheme to be non-nil. If one
// constructor writes `&privKey{scheme: h, ...}` and another (the decoder) `&privKey{...}` without it, keys
// from the second path panic in MarshalBinary although they compare equal to keys from the first. Reported
// per composite literal that leaves such a field out, unless the function holding the literal assigns the
// field of some object of that type itself.
func checkCtorFields(c *Ctx, p *Program, rule string, prefixes []string) {
	type key struct{ typ, field string }
	var fs []*ssa.Function
	for f := range p.AllFuncs {
		if f.Blocks != nil && isCirclFunc(f) && sourceFunc(f) && !strings.Contains(funcPkgPath(f), "/internal/test") && (prefixes == nil || inScope(f, prefixes)) {
			fs = append(fs, f)
		}
	}
	sort.Slice(fs, func(i, j int) bool { return fs[i].String() < fs[j].String() })
	hard := map[key]string{} // field used as a receiver / dereferenced without a nil test: where
	type lit struct {
		f      *ssa.Function
		pos    token.Pos
		fields map[string]bool
	}
	lits := map[string][]lit{}
	assigns := map[*ssa.Function]map[key]bool{}
	nilTested := map[*ssa.Function]map[key]bool{}
	fieldKey := func(fa *ssa.FieldAddr) (key, bool) {
		st := derefType(fa.X.Type())
		if _, ok := st.Underlying().(*types.Struct); !ok {
			return key{}, false
		}
		ft := derefType(fa.Type())
		switch ft.Underlying().(type) {
		case *types.Pointer, *types.Interface:
			return key{st.String(), fieldName(fa)}, true
		}
		return key{}, false
	}
	for _, f := range fs {
		for _, b := range f.Blocks {
			for _, in := range b.Instrs {
				switch x := in.(type) {
				case *ssa.Alloc:
					if x.Comment != "complit" {
						continue
					}
					st, ok := derefType(x.Type()).Underlying().(*types.Struct)
					if !ok || st.NumFields() == 0 {
						continue
					}
					l := lit{f, x.Pos(), map[string]bool{}}
					for _, r := range *x.Referrers() {
						if fa, ok := r.(*ssa.FieldAddr); ok {
							l.fields[fieldName(fa)] = true
						}
					}
					t := derefType(x.Type()).String()
					lits[t] = append(lits[t], l)
				case *ssa.Store:
					if fa, ok := x.Addr.(*ssa.FieldAddr); ok {
						if k, ok := fieldKey(fa); ok {
							if assigns[f] == nil {
								assigns[f] = map[key]bool{}
							}
							assigns[f][k] = true
						}
					}
				case *ssa.UnOp:
					if x.Op != token.MUL {
						continue
					}
					fa, ok := x.X.(*ssa.FieldAddr)
					if !ok {
						continue
					}
					k, ok := fieldKey(fa)
					if !ok {
						continue
					}
					for _, r := range *x.Referrers() {
						switch y := r.(type) {
						case *ssa.BinOp:
							if y.Op == token.EQL || y.Op == token.NEQ {
								if nilTested[f] == nil {
									nilTested[f] = map[key]bool{}
								}
								nilTested[f][k] = true
							}
						case ssa.CallInstruction:
							cc := y.Common()
							if (cc.IsInvoke() && cc.Value == ssa.Value(x)) || (!cc.IsInvoke() && len(cc.Args) > 0 && cc.Args[0] == ssa.Value(x) && cc.StaticCallee() != nil && cc.StaticCallee().Signature.Recv() != nil) {
								if _, seen := hard[k]; !seen || p.pos(x.Pos()) < hard[k] {
									hard[k] = fname(f) + " at " + p.pos(x.Pos())
								}
								if assigns[f] == nil {
									assigns[f] = map[key]bool{}
								}
							}
						case *ssa.FieldAddr:
							if y.X == ssa.Value(x) {
								hard[k] = fname(f) + " at " + p.pos(x.Pos())
							}
						}
					}
				}
			}
		}
	}
	var keys []key
	for k := range hard {
		keys = append(keys, k)
	}
	sort.Slice(keys, func(i, j int) bool { return keys[i].typ+keys[i].field < keys[j].typ+keys[j].field })
	nlits, nbad := 0, 0
	for _, k := range keys {
		ls := lits[k.typ]
		// only types of which some literal names the field: otherwise the field is assigned by other means
		// (a setter, the zero value is never used) and the literals say nothing
		some := false
		for _, l := range ls {
			if l.fields[k.field] {
				some = true
			}
		}
		if !some {
			continue
		}
		for _, l := range ls {
			nlits++
			// `&T{}` is an explicit zero value handed to a decoder or setter, not a constructor path
			if l.fields[k.field] || assigns[l.f][k] || len(l.fields) == 0 {
				continue
			}
			nbad++
			c.bad(rule, fmt.Sprintf("%s: the composite literal of %s at %s sets field %s", fname(l.f), short(k.typ), p.pos(l.pos), k.field), fmt.Sprintf("the field is left nil here, other literals of the type set it, and %s uses it as a receiver without a nil test: objects built on this path panic there", hard[k]), p.pos(l.pos))
		}
	}
	c.count("ctorfield_literals", nlits)
	if nbad == 0 {
		c.ok(rule, "every composite literal sets the pointer / interface fields that methods of the type use without a nil test (where any literal of the type sets them)", fmt.Sprintf("%d fields used that way, %d literals inspected", len(keys), nlits), "")
	}
}

func init() {
	for prop, pres := range map[string][]string{"C01": {"kem", "hpke", "pke"}, "C07": {"hpke"}} {
		prop, pres := prop, pres
		prev := registry[prop]
		registry[prop] = func(c *Ctx) {
			prev(c)
			if p := c.Prog("amd64"); p != nil {
				c.Clauses = append(c.Clauses, prop+".ctorfields: a pointer or interface field that a method uses as a receiver without a nil test is set by every composite literal of the type (where any literal sets it)")
				checkCtorFields(c, p, prop+".ctorfields", pres)
			}
		}
	}
}
