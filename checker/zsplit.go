package main

import (
	"fmt"
	"sort"
	"strings"

	"golang.org/x/tools/go/ssa"
)

// SPLIT: sibling calls are handed disjoint parts of a shared buffer.
//
// A combiner (hybrid KEM, hybrid signature, X-Wing) cuts a seed, a key or a ciphertext into the parts of
// its components and hands each part to the same operation of the respective component. When two calls of
// one callee receive, in the same argument position, two slices of the same buffer, the slices have to be
// disjoint (seed[:a] and seed[a:]). Two different prefixes (seed[:a] and seed[:b]) or two different suffixes
// certainly overlap: both components are fed the same bytes and part of the buffer is left unused. Only
// this certain overlap is reported; parts whose bounds are unrelated expressions are not compared.
func checkSplit(c *Ctx, p *Program, prop string, prefixes []string) {
	rule := prop + ".split"
	var fs []*ssa.Function
	for f := range p.AllFuncs {
		if f.Blocks != nil && isCirclFunc(f) && sourceFunc(f) && !strings.Contains(funcPkgPath(f), "/internal/test") && (prefixes == nil || inScope(f, prefixes)) {
			fs = append(fs, f)
		}
	}
	sort.Slice(fs, func(i, j int) bool { return fs[i].String() < fs[j].String() })
	type part struct {
		base   ssa.Value
		lo, hi string
		pos    string
	}
	bound := func(v ssa.Value, dflt string) string {
		if v == nil {
			return dflt
		}
		return descVal(v)
	}
	npairs, nbad := 0, 0
	for _, f := range fs {
		groups := map[string][]part{}
		for _, b := range f.Blocks {
			for _, in := range b.Instrs {
				ci, ok := in.(ssa.CallInstruction)
				if !ok {
					continue
				}
				c0 := ci.Common()
				if _, isB := c0.Value.(*ssa.Builtin); isB {
					continue
				}
				name := p.staticCalleeName(c0)
				if name == "" || strings.Contains(name, "encoding/binary.") {
					continue // fixed-width readers / writers take an open-ended suffix and use its first bytes only
				}
				for i, a := range c0.Args {
					sl, ok := a.(*ssa.Slice)
					if !ok || sl.Max != nil {
						continue
					}
					if !sliceLike(sl.X.Type()) {
						continue
					}
					k := fmt.Sprintf("%s#%d", name, i)
					groups[k] = append(groups[k], part{sl.X, bound(sl.Low, "0"), bound(sl.High, "len"), p.pos(in.Pos())})
				}
			}
		}
		var keys []string
		for k := range groups {
			keys = append(keys, k)
		}
		sort.Strings(keys)
		for _, k := range keys {
			ps := groups[k]
			for i := 0; i < len(ps); i++ {
				for j := i + 1; j < len(ps); j++ {
					a, b := ps[i], ps[j]
					if a.base != b.base {
						continue
					}
					npairs++
					if a.lo == b.lo && a.hi == b.hi {
						continue // the same part handed to both (a message signed by both components)
					}
					// certain overlap: two different parts that start at the same place, or end at the same place
					if !(a.lo == b.lo || a.hi == b.hi) {
						continue
					}
					nbad++
					callee := k[:strings.LastIndex(k, "#")]
					c.bad(rule, fmt.Sprintf("%s: the parts of %s handed to the calls of %s do not overlap", fname(f), descVal(a.base), shortCallee(callee)),
						fmt.Sprintf("[%s:%s] at %s and [%s:%s] at %s start or end at the same place and differ in length: both calls consume the same bytes", a.lo, a.hi, a.pos, b.lo, b.hi, b.pos), a.pos)
				}
			}
		}
	}
	c.count("split_pairs", npairs)
	if npairs == 0 {
		c.undecided(rule, "pairs of sibling calls handed two slices of one buffer", "none found: the rule would be vacuous", "")
		return
	}
	if nbad == 0 {
		c.ok(rule, "sibling calls handed two slices of one buffer get parts that do not certainly overlap", fmt.Sprintf("%d pairs", npairs), "")
	}
}

func init() {
	for prop, pres := range map[string][]string{
		"C01": {"kem/", "hpke"},
		"C07": {"hpke"},
	} {
		prop, pres := prop, pres
		prev := registry[prop]
		if prev == nil {
			panic("split: " + prop + " not registered")
		}
		registry[prop] = func(c *Ctx) {
			prev(c)
			if p := c.Prog("amd64"); p != nil {
				c.Clauses = append(c.Clauses, prop+".split: two calls of one operation that receive slices of the same buffer receive adjacent parts of it (seed[:a] and seed[a:]), not overlapping ones")
				checkSplit(c, p, prop, pres)
			}
		}
	}
}
